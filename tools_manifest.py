#!/usr/bin/env python3
"""Regenerates MANIFEST.json from the table below (kept as a script so the not_applicable
reasons and per-check texts live in one reviewable place)."""
import json, subprocess
BASE_OFF = "cd /repo && go test -mod=mod -json -vet=off -count=1 -timeout 25m ./..."
NA = {
 "C01": "Pure function of (program text, input values); deciding it needs an executable reference semantics for the whole language (differential testing), there is no schedule, clock, fault or second party for a simulator to control.",
 "C02": "Static all-paths property of the compiler's output (stack-height abstract interpretation per function); a simulated run observes one path and no nondeterminism is involved.",
 "C03": "Pure differential property of two compiler configurations over programs; no schedule, fault or time.",
 "C04": "Totality of pure functions on a complete byte slice (no stream, partial delivery or timing): this is fuzzing, not simulation.",
 "C09": "Single-threaded operation sequences on values with a snapshot invariant; nothing depends on interleaving, time or faults (the cross-thread sharing of module tables is covered under C08).",
 "C10": "Algebraic laws of pure functions over pairs of values.",
 "C11": "Metamorphic property of the compiler/VM over program transformations; pure.",
 "C12": "Pure transformations of bytecode; the only I/O (Encode/Decode) is delegated to encoding/gob and the property states nothing about truncated or corrupted streams, so a simulated disk would test gob, not tengo.",
 "C13": "Property of compile-time import graphs (termination, cycle detection, caching, isolation), pure in (graph, bodies, settings); 'never consults the file system' is an absence of system calls behind a seam the simulator does not own.",
 "C16": "Pure function of (recursive program, depth); cancellation of unbounded tail recursion is exercised under C07.",
 "C17": "Differential equality with Go's fmt over (format, args); pure.",
 "C18": "Differential equality / round-trip with encoding/json over values and byte strings; pure.",
 "C19": "Differential equality with the wrapped Go functions per table entry; the clock/OS/rand entries are excluded by the statement itself.",
 "C20": "Pure function of source text (grouping, semicolon insertion, literal values, print/re-parse).",
}
CHECKS = {
 "C05": dict(cat="exploration", ref="DESIGN.md 5.2",
   text="Seeded hostile programs (ill-typed operations, division by zero, runaway and wide recursion, operand-stack exhaustion, spread of over-long arrays, mutation during iteration, builtin/format/module misuse, self-referential containers) run through the context-aware entry points under injected faults at simulator-chosen instants: panics raised inside the dispatch loop, failing/panicking/blocking host functions, cancellation at any site, allocation budget, small length limits; crash-isolated worker processes observe unrecoverable fatals; afterwards Get/GetAll/IsDefined/Set/RunContext on the same object must behave like a fresh object. Sampling, not proof.",
   note="Trusts the crash classification by the Go runtime's own messages and the after-care baseline (same implementation, fresh object). Known finding (cyclic containers -> fatal stack overflow) is listed in known_findings.json by recursion signature; any other crash signature is reported.",
   tech="deterministic simulation with fault injection: seeded hostile workloads x injected panics/host faults/cancellation at chosen instants, process-isolated workers, fresh-object oracle"),
 "C08": dict(cat="exploration", ref="DESIGN.md 5.4",
   text="K clones (and, separately, several threads on one object) are interleaved instruction by instruction and at lock sites by a seeded scheduler; every clone must return exactly what it returns alone on a separately compiled copy, untouched objects must stay unchanged, operations on one object must equal a serial witness in lock order, and the Go race detector - made independent of timing by hiding the simulator's own hand-offs and draining sync.Pools at every context switch - must report no conflicting unsynchronised accesses in tengo code. Before and after the threads run, no two compiled objects may reach the same array, map or captured-variable cell. A second phase in the ordinary build lets pooled objects travel between threads (scheduling points inside format calls through host String methods, formatter failure paths taken, pools never emptied but made deterministic). Sampling, not proof.",
   note="Trusts the Go race detector's happens-before analysis (bounded shadow history), the separately compiled baseline, and the rule that the simulator never touches tengo memory from the controller. Four genuine defects found on the pinned tree were repaired by fix: commits (recorded in known_findings.json as fixed); one (Clone shares the captured-variable cells of closures held in globals) is listed as a known finding by the class of the disjointness invariant.",
   tech="deterministic simulation: seeded interleaving of clone executions on real goroutines + happens-before race analysis with simulator hand-offs hidden; solo-run and serial-witness oracles"),
 "C06": dict(cat="fault_enumeration", ref="DESIGN.md 5.3",
   text="The allocation budget is the library's own allocation-failure injector: for every generated program the budget N is swept over every allocation index; relations between the runs are the oracle (limit error below the threshold, success with the unlimited run's globals at and above it, one more object-creating operation of each documented kind raises the threshold, k literal statements need a budget of at least k). String/bytes growers are run under a grid of length maxima (fixed 8, 64, 1024, default plus values drawn per program, with operands of per-program length) with every reachable String/Bytes measured after every run; recursion ladders are run around and beyond the frame and operand-stack capacity. Programs are sampled; the fault index space of each program is enumerated.",
   note="Oracles are relations between runs of the same implementation under different limit settings; no implementation constant is mirrored except the exported StackSize/MaxFrames. Counting a site twice is deliberately not reported (the statement 'at most N' still holds).",
   tech="fault enumeration with the allocation budget as injector (crash-point sweep over every allocation index), limit knobs varied per run, unlimited run as reference"),
 "C14": dict(cat="fault_enumeration", ref="DESIGN.md 5.5",
   text="Fault enumeration over host-call indexes: call-tree programs with marker host calls make the failing statement and the active call chain known by construction; every k-th host call is failed in turn, planted sentinel failures (index out of bounds, string/bytes limit, ill-typed operand, non-callable), the frame-limit ladder and an allocation-budget sweep are run; the reported location, every trace entry and errors.Is identity are compared with the constructed expectation. Programs are sampled; the fault index space of each program is enumerated.",
   note="Locations are checked at file+line granularity (one statement per line by construction); failing VM-internal operation kinds are covered where the generator plants them (sampled, not enumerated).",
   tech="fault enumeration: fail the k-th host call / N-th allocation / frame supply for every k on marker-instrumented call-tree workloads; expectation known by construction"),
 "C15": dict(cat="exploration", ref="DESIGN.md 5.6",
   text="Generated API histories (Add/Remove/Compile/Run/RunContext/Set/Get with every typed accessor/GetAll/IsDefined/Clone/Eval, values of every documented Go kind incl. nested containers and unsupported kinds) are executed by one simulated client - with cancellation, failing or panicking host calls and allocation budgets injected inside runs - and refined operation by operation against a small executable reference model written from the documented conversion and coercion tables; histories of 2-3 concurrent clients on one object and its clones, stamped with controller decision numbers, are checked for linearizability against the same model with porcupine. Sampling, not proof.",
   note="Trusts the reference model (sim/model.go, ~500 lines, follows docs/interoperability.md and docs/runtime-types.md), porcupine, and the closed-form meaning of the effect DSL. Cells the documentation leaves open are not asserted. After an injected fault the model is nondeterministic exactly at that run (set of prefix states); fault-free histories are compared exactly.",
   tech="deterministic simulation: generated API histories with injected in-run faults vs executable reference model (sequential refinement; porcupine linearizability for concurrent clients)"),
 "C07": dict(cat="exploration", ref="DESIGN.md 5.1",
   text="Seeded search over cancellation instants (every hand-off site of RunContext, any VM instruction, during a blocking host call, after return), context kinds, caller stalls and thread interleavings of {caller, VM goroutine, fake clock}, on the real code; oracles: returned error vs. context state and vs. the undisturbed run, bounded-step promptness, no VM activity or goroutine after return, re-run equals a fresh object. Sampling, not proof.",
   note="Trusts the guarded hooks (no-ops without the tag), testing/synctest quiescence detection and the simulator's own bookkeeping; interleavings within one VM instruction and the runtime's coin flip in a both-ready select are not explored.",
   tech="deterministic simulation: seeded scheduler over real goroutines parked at hooks, fake clock, injected cancellation/stall/host-block faults, solo-run oracle"),
}
def main():
    hooks_commits = subprocess.run(["git","-C","/repo","log","--format=%H","--grep=^verif:"],capture_output=True,text=True).stdout.split()
    m = {
     "version": 1,
     "setup_cmd": "./setup.sh",
     "hooks": {"guard": "verif", "enable": "go1.26.8 test -c -tags verif -ldflags=-checklinkname=0 [-race] ./sim  (module replace github.com/d5/tengo/v2 => /repo)",
               "baseline_off_cmd": BASE_OFF, "source_commits": hooks_commits, "add_only": True},
     "engines": [{"name":"sim","path":"sim/","serves_properties":sorted(CHECKS),"kind_free_text":"deterministic simulator: seeded controller releasing real goroutines one at a time at guarded hook sites inside a testing/synctest bubble; plan-file replay; process-isolated workers"}],
     "checks": [],
     "not_applicable": [{"property_id":k,"reason":v} for k,v in sorted(NA.items())],
     "notes": "All claimed checks: exit 0 = held on everything explored (KNOWN-FINDING lines possible), exit 1 = VIOLATION line with a minimised, re-played plan file, exit 2 = infrastructure problem (build, nondeterminism, watchdog) - never a violation.",
    }
    for pid,c in sorted(CHECKS.items()):
        m["checks"].append({
          "property_id": pid,
          "quick_cmd": "./bin/verif check %s --tier quick" % pid,
          "thorough_cmd": "./bin/verif check %s --tier thorough" % pid,
          "evidence_file": "/verif/evidence/%s.json" % pid,
          "replay_cmd_template": "./bin/verif replay {path}",
          "engine": "sim",
          "level_claimed": {"category": c["cat"], "text": c["text"], "design_ref": c["ref"]},
          "level_note": c["note"],
          "technique": c["tech"],
        })
    for pid in NA:
        assert pid not in CHECKS
    json.dump(m, open("/verif/MANIFEST.json","w"), indent=1); open("/verif/MANIFEST.json","a").write("\n")
main()
