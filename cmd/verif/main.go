// Command verif is the orchestrator: it rebuilds the instrumented worker from
// /repo's working tree, runs seeded episodes on a pool of worker processes,
// checks determinism, minimises and replays violations, matches known findings
// and writes the evidence file.
package main

import (
	"encoding/json"
	"flag"
	"fmt"
	"os"
	"os/exec"
	"path/filepath"
	"runtime"
	"sort"
	"strconv"
	"strings"
	"time"

	"verif/gen"
	"verif/plan"
)

const goBin = "go1.26.8"

var root = "/verif"

type propCfg struct {
	id        string
	level     string
	race      bool
	quickN    int
	thoroughN int
	recycle   int
	// second phase: one extra episode per subEvery main episodes, generated under
	// the job property subProp and run in the ordinary (non-race) build
	subProp  string
	subEvery int
	rule     string
	assume   []string
	real     []string
	stub     []string
}

var props = map[string]*propCfg{}

func usage() {
	fmt.Fprintln(os.Stderr, `usage:
  verif check <ID> [--tier quick|thorough] [--episodes N] [--workers W]
  verif replay <file>
  verif gen <ID> <seed>
  verif run <ID> <seed>        (one episode with trace)`)
	os.Exit(2)
}

func main() {
	if len(os.Args) < 2 {
		usage()
	}
	if wd, err := os.Getwd(); err == nil {
		if _, err := os.Stat(filepath.Join(wd, "go.mod")); err == nil {
			root = wd
		}
	}
	switch os.Args[1] {
	case "check":
		os.Exit(cmdCheck(os.Args[2:]))
	case "replay":
		os.Exit(cmdReplay(os.Args[2:]))
	case "gen":
		if len(os.Args) < 4 {
			usage()
		}
		seed, _ := strconv.ParseUint(os.Args[3], 10, 64)
		p := gen.Generate(os.Args[2], seed, "quick")
		b, _ := json.MarshalIndent(p, "", " ")
		fmt.Println(string(b))
	case "run":
		os.Exit(cmdRun(os.Args[2:]))
	case "detjobs": // debugging aid: the job lines of the determinism self-test sample
		n, _ := strconv.Atoi(os.Args[3])
		for i := 0; i < 32 && i < n; i++ {
			idx := (i * 7919) % n
			fmt.Printf("{\"id\":%d,\"prop\":%q,\"seed\":%d,\"tier\":\"quick\"}\n", idx, os.Args[2], plan.EpisodeSeed(baseSeed(), os.Args[2], uint64(idx)))
		}
	default:
		usage()
	}
}

func goEnv() []string {
	env := os.Environ()
	env = append(env, "GOFLAGS=-mod=mod", "GOPROXY=off", "GOSUMDB=off", "GOTOOLCHAIN=local", "CGO_ENABLED=1")
	return env
}

// buildWorker rebuilds the worker test binary from /repo's current working tree
// (module replace => /repo) with the hooks enabled.
func buildWorker(race bool) (string, error) {
	out := filepath.Join(root, "build", "worker.test")
	// -checklinkname=0: sim/pools.go binds sync.poolCleanup
	args := []string{"test", "-c", "-tags", "verif", "-ldflags=-checklinkname=0", "-o", out, "./sim"}
	if race {
		out = filepath.Join(root, "build", "worker-race.test")
		// -checklinkname=0: the race build binds sync.poolCleanup (see sim/race_on.go)
		args = []string{"test", "-c", "-race", "-tags", "verif", "-ldflags=-checklinkname=0", "-o", out, "./sim"}
	}
	os.MkdirAll(filepath.Join(root, "build"), 0o755)
	// go.sum of the module under test is reused so that nothing is fetched
	if b, err := os.ReadFile("/repo/go.sum"); err == nil {
		os.WriteFile(filepath.Join(root, "go.sum"), b, 0o644)
	}
	// VERIF_REPO=<dir>: build against another checkout of the module (scratch
	// worktrees used for sensitivity experiments); the registered commands never set it
	if alt := os.Getenv("VERIF_REPO"); alt != "" {
		gm, err := os.ReadFile(filepath.Join(root, "go.mod"))
		if err != nil {
			return "", err
		}
		// unique per invocation: several experiments may run at the same time
		tag := fmt.Sprintf("alt-%d", os.Getpid())
		altMod := filepath.Join(root, "build", tag+".mod")
		os.WriteFile(altMod, []byte(strings.Replace(string(gm), "=> /repo", "=> "+alt, 1)+"\n"), 0o644)
		alt2 := strings.Replace(string(gm), "=> /repo", "=> "+alt, 1)
		alt2 = strings.Replace(alt2, "=> ./third_party/porcupine", "=> "+filepath.Join(root, "third_party/porcupine"), 1)
		os.WriteFile(altMod, []byte(alt2), 0o644)
		if b, err := os.ReadFile(filepath.Join(root, "go.sum")); err == nil {
			os.WriteFile(filepath.Join(root, "build", tag+".sum"), b, 0o644)
		}
		out = strings.TrimSuffix(out, ".test") + "-" + tag + ".test"
		for i, a := range args {
			if a == "-o" {
				args[i+1] = out
			}
		}
		args = append(args[:1], append([]string{"-modfile=" + altMod}, args[1:]...)...)
		fmt.Printf("NOTE: building against %s instead of /repo (VERIF_REPO)\n", alt)
	}
	cmd := exec.Command(goBin, args...)
	cmd.Dir = root
	cmd.Env = goEnv()
	b, err := cmd.CombinedOutput()
	if err != nil {
		return "", fmt.Errorf("building worker failed: %v\n%s", err, b)
	}
	return out, nil
}

func baseSeed() uint64 {
	if s := os.Getenv("VERIF_SEED"); s != "" {
		if v, err := strconv.ParseUint(s, 10, 64); err == nil {
			return v
		}
	}
	return 1
}

func cmdRun(args []string) int {
	if len(args) < 2 {
		usage()
	}
	pc := props[args[0]]
	genProp, race := args[0], false
	if pc == nil {
		for _, q := range props {
			if q.subProp == args[0] {
				pc = q
			}
		}
	} else {
		race = pc.race
	}
	if pc == nil {
		fmt.Fprintln(os.Stderr, "unknown property", args[0])
		return 2
	}
	seed, _ := strconv.ParseUint(args[1], 10, 64)
	bin, err := buildWorker(race)
	if err != nil {
		fmt.Fprintln(os.Stderr, err)
		return 2
	}
	p := gen.Generate(genProp, seed, "quick")
	cfg := poolCfg{bin: bin, gomaxprocs: 1, race: race, raceLogDir: raceDir()}
	res := runOne(cfg, p, true)
	printResult(p, res)
	return 0
}

func raceDir() string {
	d := filepath.Join(root, "build", "racelog")
	os.MkdirAll(d, 0o755)
	return d
}

func printResult(p *plan.Plan, res *EpisodeResult) {
	for _, l := range res.Trace {
		fmt.Println("  ", l)
	}
	b, _ := json.MarshalIndent(p, "", " ")
	fmt.Println(string(b))
	res.Trace = nil
	b, _ = json.MarshalIndent(res, "", " ")
	fmt.Println(string(b))
}

// ---------------------------------------------------------------------------

type replayFile struct {
	Property string     `json:"property"`
	Class    string     `json:"class"`
	Digest   string     `json:"digest"`
	Detail   string     `json:"detail"`
	Seed     uint64     `json:"seed"`
	Original *plan.Plan `json:"original_plan,omitempty"`
	Plan     *plan.Plan `json:"plan"`
}

func cmdReplay(args []string) int {
	if len(args) < 1 {
		usage()
	}
	b, err := os.ReadFile(args[0])
	if err != nil {
		fmt.Fprintln(os.Stderr, err)
		return 2
	}
	var rf replayFile
	if err := json.Unmarshal(b, &rf); err != nil {
		fmt.Fprintln(os.Stderr, "bad replay file:", err)
		return 2
	}
	pc := props[rf.Property]
	if pc == nil {
		fmt.Fprintln(os.Stderr, "unknown property in replay file")
		return 2
	}
	race := pc.race && rf.Plan.Prop != pc.subProp
	bin, err := buildWorker(race)
	if err != nil {
		fmt.Fprintln(os.Stderr, err)
		return 2
	}
	cfg := poolCfg{bin: bin, gomaxprocs: 1, race: race, raceLogDir: raceDir()}
	res := runOne(cfg, rf.Plan, true)
	n := len(res.Trace)
	from := 0
	if n > 80 {
		from = n - 80
	}
	for _, l := range res.Trace[from:] {
		fmt.Println("  ", l)
	}
	cl := classOf(res)
	fmt.Printf("replay: class=%q digest=%s (recorded class=%q digest=%s)\n", cl, res.Digest, rf.Class, rf.Digest)
	for _, v := range res.Violations {
		fmt.Printf("  %s: %s\n", v.Oracle, v.Detail)
	}
	if res.Crash != "" {
		fmt.Println(tail(res.Crash, 3000))
	}
	if cl != "" {
		fmt.Printf("VIOLATION property=%s replay=%s\n", rf.Property, args[0])
		return 1
	}
	fmt.Println("no violation reproduced")
	return 0
}

func tail(s string, n int) string {
	if len(s) <= n {
		return s
	}
	return s[len(s)-n:]
}

// classOf names the violation class of a result ("" = none). Minimisation
// preserves the class; known findings are matched on it.
func classOf(r *EpisodeResult) string {
	if r.Crash != "" {
		kind, sig := crashSignature(r.Crash)
		if kind == "crash" || kind == "watchdog" || (kind == "resource" && r.Prop == "C05") {
			// C05 claims that the host survives: its workloads request no large
			// allocations, so a worker that dies of memory exhaustion (6 GiB cap)
			// was made to allocate without bound by the script
			return "crash:" + sig
		}
		return ""
	}
	if len(r.Violations) > 0 {
		return r.Violations[0].Oracle
	}
	return ""
}

// ---------------------------------------------------------------------------

type knownFinding struct {
	Property    string `json:"property"`
	Status      string `json:"status"` // known | fixed
	Class       string `json:"class"`  // matched as a prefix of the violation class
	Commit      string `json:"commit,omitempty"`
	Description string `json:"description"`
}

func loadKnown() []knownFinding {
	var kf struct {
		Findings []knownFinding `json:"findings"`
	}
	b, err := os.ReadFile(filepath.Join(root, "known_findings.json"))
	if err != nil {
		return nil
	}
	if err := json.Unmarshal(b, &kf); err != nil {
		fmt.Fprintln(os.Stderr, "known_findings.json:", err)
		os.Exit(2)
	}
	return kf.Findings
}

func matchKnown(kfs []knownFinding, prop, class string) *knownFinding {
	for i := range kfs {
		k := &kfs[i]
		if k.Status == "known" && k.Property == prop && k.Class != "" && strings.HasPrefix(class, k.Class) {
			return k
		}
	}
	return nil
}

// ---------------------------------------------------------------------------

type agg struct {
	episodes, evals     int
	decisions, switches int64
	vmSteps             int64
	simNs               int64
	fired, probes       map[string]int
	inconclusive        map[string]int
	interleavings       map[uint64]struct{}
	states              []uint64 // bottom-k sketch
	cases               map[string]int
	nontrivialCases     map[string]struct{}
	shapes              map[string]int
	maxThreads          int
	resourceDeaths      int
}

func newAgg() *agg {
	return &agg{fired: map[string]int{}, probes: map[string]int{}, inconclusive: map[string]int{}, interleavings: map[uint64]struct{}{},
		cases: map[string]int{}, nontrivialCases: map[string]struct{}{}, shapes: map[string]int{}}
}

const sketchK = 4096

func (a *agg) add(r *EpisodeResult) {
	a.episodes++
	if r.Evals > 0 {
		a.evals += r.Evals
	} else {
		a.evals++
	}
	a.decisions += int64(r.Stats.Decisions)
	a.switches += int64(r.Stats.Switches)
	a.vmSteps += int64(r.Stats.VMSteps)
	a.simNs += r.Stats.SimNs
	for k, v := range r.Stats.Fired {
		a.fired[k] += v
	}
	for k, v := range r.Stats.Probes {
		a.probes[k] += v
	}
	if r.Inconclusive != "" {
		a.inconclusive[r.Inconclusive]++
	}
	if r.Stats.Decisions > 0 {
		a.interleavings[r.Stats.SwitchSig^mixStr(r.Case)] = struct{}{}
	}
	a.states = append(a.states, r.Stats.StateSigs...)
	if len(a.states) > 4*sketchK {
		a.compact()
	}
	if r.Case != "" {
		a.cases[r.Case]++
		if r.Nontrivial {
			a.nontrivialCases[r.Case] = struct{}{}
		}
	}
	a.shapes[r.Shape]++
	if r.Stats.Threads > a.maxThreads {
		a.maxThreads = r.Stats.Threads
	}
}

func mixStr(s string) uint64 {
	var h uint64 = 1469598103934665603
	for i := 0; i < len(s); i++ {
		h ^= uint64(s[i])
		h *= 1099511628211
	}
	return h
}

func (a *agg) compact() {
	sort.Slice(a.states, func(i, j int) bool { return a.states[i] < a.states[j] })
	out := a.states[:0]
	var prev uint64
	for i, s := range a.states {
		if i > 0 && s == prev {
			continue
		}
		out = append(out, s)
		prev = s
	}
	if len(out) > sketchK {
		out = out[:sketchK]
	}
	a.states = out
}

// distinctStates estimates the number of distinct abstract states from the
// bottom-k sketch (exact when fewer than k were seen).
func (a *agg) distinctStates() int {
	a.compact()
	if len(a.states) < sketchK {
		return len(a.states)
	}
	kth := float64(a.states[sketchK-1]) / float64(^uint64(0))
	if kth <= 0 {
		return len(a.states)
	}
	return int(float64(sketchK-1) / kth)
}

type violationRec struct {
	job   Job
	res   *EpisodeResult
	class string
}

func cmdCheck(args []string) int {
	if len(args) < 1 {
		usage()
	}
	id := args[0]
	fs := flag.NewFlagSet("check", flag.ExitOnError)
	tier := fs.String("tier", "quick", "quick|thorough")
	episodes := fs.Int("episodes", 0, "override the number of episodes")
	workers := fs.Int("workers", 0, "worker processes (default: all cores)")
	fs.Parse(args[1:])
	if t := os.Getenv("VERIF_TIER"); t != "" && !flagSet(fs, "tier") {
		*tier = t
	}
	pc := props[id]
	if pc == nil {
		fmt.Fprintln(os.Stderr, "unknown or unclaimed property", id)
		return 2
	}
	start := time.Now()
	base := baseSeed()
	n := pc.quickN
	if *tier == "thorough" {
		n = pc.thoroughN
	}
	if *episodes > 0 {
		n = *episodes
	}
	nw := *workers
	if nw <= 0 {
		nw = runtime.NumCPU()
		if pc.race && nw > 4 {
			// race-build episodes are bound by page-fault traffic of the race
			// runtime (one ThreadState per goroutine), which does not scale across
			// processes in this VM: more than 4 workers only adds contention
			nw = 4
		}
	}
	fmt.Printf("check %s tier=%s base-seed=%d episodes=%d workers=%d race=%v\n", id, *tier, base, n, nw, pc.race)

	bin, err := buildWorker(pc.race)
	if err != nil {
		fmt.Fprintln(os.Stderr, err)
		return 2
	}
	fmt.Printf("worker built in %s\n", fmtDur(time.Since(start)))
	rdir := raceDir()
	if pc.race {
		cleanDir(rdir)
	}
	cfg := poolCfg{bin: bin, gomaxprocs: 1, race: pc.race, raceLogDir: rdir, recycle: pc.recycle}

	jobs := make([]Job, n)
	for i := range jobs {
		jobs[i] = Job{ID: i, Prop: id, Seed: plan.EpisodeSeed(base, id, uint64(i)), Tier: *tier}
	}
	// second phase (see propCfg.subProp): its jobs follow the main ones
	var subJobs []Job
	var cfgSub poolCfg
	if pc.subProp != "" {
		m := n / pc.subEvery
		if m == 0 {
			m = 1
		}
		binSub, err := buildWorker(false)
		if err != nil {
			fmt.Fprintln(os.Stderr, err)
			return 2
		}
		cfgSub = poolCfg{bin: binSub, gomaxprocs: 1, recycle: pc.recycle}
		for i := 0; i < m; i++ {
			subJobs = append(subJobs, Job{ID: n + i, Prop: pc.subProp, Seed: plan.EpisodeSeed(base, pc.subProp, uint64(i)), Tier: *tier})
		}
		jobs = append(jobs, subJobs...)
		fmt.Printf("second phase: %d %s episodes in the ordinary build\n", m, pc.subProp)
	}
	cfgOf := func(prop string) poolCfg {
		if prop == pc.subProp && prop != "" {
			return cfgSub
		}
		return cfg
	}
	a := newAgg()
	digests := make([]string, len(jobs))
	verdicts := make([]string, len(jobs))
	raceTexts := map[int]string{}
	var viols []violationRec
	var infra []string
	var samples []interface{}
	runStart := time.Now()
	done := 0
	onResult := func(j *Job, r *EpisodeResult) {
		done++
		if done%100000 == 0 {
			fmt.Printf("  ... %d/%d episodes, %s\n", done, n, fmtDur(time.Since(runStart)))
		}
		digests[j.ID] = r.Digest
		cl := classOf(r)
		verdicts[j.ID] = cl
		if r.RaceText != "" && len(raceTexts) < 64 {
			raceTexts[j.ID] = r.RaceText
		}
		if r.Crash != "" {
			kind, _ := crashSignature(r.Crash)
			switch kind {
			case "resource":
				a.resourceDeaths++
				if id != "C05" {
					infra = append(infra, fmt.Sprintf("seed %d: worker died of memory exhaustion\n%s", j.Seed, tail(r.Crash, 800)))
				}
			case "watchdog":
				// handled below as class crash:hang:... : repeated alone in a fresh process;
				// not reproduced -> inconclusive; reproduced -> violation (C05, C07) or exit 2
			}
		}
		if r.Fatal != "" {
			infra = append(infra, fmt.Sprintf("seed %d: %s", j.Seed, r.Fatal))
		}
		a.add(r)
		if cl != "" {
			viols = append(viols, violationRec{job: *j, res: r, class: cl})
		}
		if len(samples) < 3 && r.Nontrivial && cl == "" && j.Prop == id {
			samples = append(samples, sampleOf(id, j.Seed, *tier, r))
		}
	}
	err = runJobs(cfg, nw, jobs[:n], onResult)
	if err != nil {
		fmt.Fprintln(os.Stderr, "worker pool:", err)
		return 2
	}
	if len(subJobs) > 0 {
		err = runJobs(cfgSub, runtime.NumCPU(), subJobs, onResult)
		if err != nil {
			fmt.Fprintln(os.Stderr, "worker pool:", err)
			return 2
		}
	}
	runWall := time.Since(runStart)
	fmt.Printf("%d episodes in %s (%.0f episodes/hour), %d decisions, %d VM steps, %.3f simulated seconds\n",
		a.episodes, fmtDur(runWall), float64(a.episodes)/runWall.Hours(), a.decisions, a.vmSteps, float64(a.simNs)/1e9)
	if len(infra) > 0 {
		for i, s := range infra {
			if i < 5 {
				fmt.Fprintln(os.Stderr, "INFRASTRUCTURE:", s)
			}
		}
		fmt.Fprintf(os.Stderr, "%d episodes hit a simulator problem; no verdict is reported (exit 2)\n", len(infra))
		return 2
	}

	// determinism self-test: re-run a sample in a different configuration
	k := 32
	if *tier == "thorough" {
		k = 256
	}
	if k > n {
		k = n
	}
	det := make([]Job, 0, k)
	for i := 0; i < k; i++ {
		det = append(det, jobs[(i*7919)%n])
	}
	var detSub []Job
	for i := 0; i < k && i < len(subJobs); i++ {
		detSub = append(detSub, subJobs[(i*7919)%len(subJobs)])
	}
	cfg2 := cfg
	cfg2.gomaxprocs = 4
	mism := 0
	onDet := func(j *Job, r *EpisodeResult) {
		// a racy tree may report another of its racing pairs on re-execution
		// (shadow-memory history): race classes count as equal, as for minimisation
		if r.Digest != digests[j.ID] || !sameClass(classOf(r), verdicts[j.ID]) {
			if mism < 5 {
				fmt.Fprintf(os.Stderr, "NONDETERMINISM: seed %d digest %s/%s verdict %q/%q\n", j.Seed, digests[j.ID], r.Digest, verdicts[j.ID], classOf(r))
				if t := raceTexts[j.ID]; t != "" {
					fmt.Fprintf(os.Stderr, "race report of the first execution:\n%s\n", tail(t, 6000))
				}
				if r.RaceText != "" {
					fmt.Fprintf(os.Stderr, "race report of the second execution:\n%s\n", tail(r.RaceText, 6000))
				}
			}
			mism++
		}
	}
	err = runJobs(cfg2, 3, det, onDet)
	if err == nil && len(detSub) > 0 {
		cfgSub2 := cfgSub
		cfgSub2.gomaxprocs = 4
		err = runJobs(cfgSub2, 3, detSub, onDet)
		k += len(detSub)
	}
	if err != nil {
		fmt.Fprintln(os.Stderr, "worker pool:", err)
		return 2
	}
	if mism > 0 {
		fmt.Fprintf(os.Stderr, "determinism self-test failed for %d of %d episodes: the simulator is not deterministic, no verdict is reported (exit 2)\n", mism, k)
		return 2
	}
	fmt.Printf("determinism self-test: %d episodes re-executed with GOMAXPROCS=4 on 3 workers, all event-log digests and verdicts identical\n", k)

	// violations: group by class, match known findings, minimise and replay the rest
	kfs := loadKnown()
	byClass := map[string][]violationRec{}
	var classes []string
	for _, v := range viols {
		if _, ok := byClass[v.class]; !ok {
			classes = append(classes, v.class)
		}
		byClass[v.class] = append(byClass[v.class], v)
	}
	sort.Strings(classes)
	exit := 0
	nViol := 0
	knownSeen := map[string]int{}
	for _, cl := range classes {
		recs := byClass[cl]
		sort.Slice(recs, func(i, j int) bool { return recs[i].job.ID < recs[j].job.ID })
		if k := matchKnown(kfs, id, cl); k != nil {
			knownSeen[k.Class] += len(recs)
			continue
		}
		nViol += len(recs)
		if exit == 2 {
			continue
		}
		first := recs[0]
		p := gen.Generate(first.job.Prop, first.job.Seed, *tier)
		path, ok := minimiseAndRecord(cfgOf(first.job.Prop), pc, p, cl, first.res)
		if !ok && strings.HasPrefix(cl, "crash:hang:") {
			// a hang that does not repeat in a fresh process was the machine, not the code
			fmt.Printf("note: %d episode(s) hit the watchdog (first seed %d) but ran normally when repeated alone; counted as inconclusive\n", len(recs), first.job.Seed)
			a.inconclusive["watchdog, not reproduced alone"] += len(recs)
			nViol -= len(recs)
			continue
		}
		if !ok {
			fmt.Fprintf(os.Stderr, "violation class %q (seed %d, %d episodes) did not reproduce on replay in a fresh process: not reported (exit 2)\n", cl, first.job.Seed, len(recs))
			exit = 2
			continue
		}
		if strings.HasPrefix(cl, "crash:hang:") && id != "C05" && id != "C07" {
			fmt.Fprintf(os.Stderr, "seed %d burns CPU without reaching a hook, reproducibly (replay %s); this property does not claim termination: no verdict (exit 2)\n", first.job.Seed, path)
			exit = 2
			continue
		}
		fmt.Printf("VIOLATION property=%s replay=%s\n", id, path)
		fmt.Printf("  class %s, %d episodes, first seed %d: %s\n", cl, len(recs), first.job.Seed, firstDetail(first.res))
		exit = 1
	}
	for _, k := range kfs {
		if k.Property == id && k.Status == "known" {
			if c := knownSeen[k.Class]; c > 0 {
				fmt.Printf("KNOWN-FINDING: property=%s %s (%s; seen in %d episodes of this run)\n", id, k.Description, k.Class, c)
			} else {
				fmt.Printf("KNOWN-FINDING: property=%s %s (%s; not reached by this run's episodes)\n", id, k.Description, k.Class)
			}
		}
	}
	if exit == 2 {
		return 2
	}

	// evidence
	for k, v := range a.probes {
		if v == 0 {
			fmt.Printf("warning: probe %s never hit\n", k)
		}
	}
	if len(samples) == 0 {
		for i := 0; i < 3 && i < n; i++ {
			samples = append(samples, sampleOf(id, jobs[i].Seed, *tier, nil))
		}
	}
	writeEvidence(pc, *tier, base, a, runWall, time.Since(start), nViol, knownSeen, k, samples)
	if exit == 0 {
		fmt.Printf("OK property=%s held on all %d episodes explored\n", id, a.episodes)
	}
	return exit
}

func flagSet(fs *flag.FlagSet, name string) bool {
	set := false
	fs.Visit(func(f *flag.Flag) {
		if f.Name == name {
			set = true
		}
	})
	return set
}

func firstDetail(r *EpisodeResult) string {
	if r.Crash != "" {
		_, sig := crashSignature(r.Crash)
		return "worker process died: " + sig
	}
	if len(r.Violations) > 0 {
		return r.Violations[0].Detail
	}
	return ""
}

func cleanDir(d string) {
	ents, _ := os.ReadDir(d)
	for _, e := range ents {
		os.Remove(filepath.Join(d, e.Name()))
	}
}

func sampleOf(id string, seed uint64, tier string, r *EpisodeResult) interface{} {
	p := gen.Generate(id, seed, tier)
	s := map[string]interface{}{"seed": seed, "shape": p.Shape, "notes": p.Notes}
	if len(p.Scripts) > 0 {
		s["script"] = p.Scripts[0].Src
	}
	if len(p.Ctxs) > 0 {
		s["ctxs"] = p.Ctxs
	}
	if len(p.Faults) > 0 {
		s["faults"] = p.Faults
	}
	if len(p.Tasks) > 0 {
		var kinds []string
		for ti, t := range p.Tasks {
			for _, op := range t {
				kinds = append(kinds, fmt.Sprintf("T%d:%s", ti, op.Kind))
			}
		}
		s["ops"] = strings.Join(kinds, " ")
	}
	if p.Params != nil {
		s["params"] = p.Params
	}
	if r != nil {
		s["case"] = r.Case
		s["decisions"] = r.Stats.Decisions
		s["digest"] = r.Digest
	}
	return s
}

func writeEvidence(pc *propCfg, tier string, seed uint64, a *agg, runWall, wall time.Duration, nViol int, known map[string]int, detK int, samples []interface{}) {
	evals := a.evals // executions: one per episode, or the number of runs/sub-episodes an episode performed
	cov := map[string]interface{}{
		"evaluations":                       evals,
		"episodes":                          a.episodes,
		"distinct_nontrivial":               len(a.nontrivialCases),
		"rule":                              pc.rule,
		"samples":                           samples,
		"episodes_per_hour":                 int(float64(a.episodes) / runWall.Hours()),
		"simulated_seconds":                 float64(a.simNs) / 1e9,
		"controller_decisions":              a.decisions,
		"context_switches":                  a.switches,
		"vm_instructions":                   a.vmSteps,
		"faults_fired":                      a.fired,
		"probes":                            a.probes,
		"distinct_interleavings":            len(a.interleavings),
		"distinct_interleavings_measure":    "distinct hashes of the sequence of (thread, site) at context switches, per distinct case",
		"distinct_abstract_states_estimate": a.distinctStates(),
		"distinct_abstract_states_measure":  "bottom-4096 sketch over hashes of (site of every thread, cancel flags, opcode and frame-depth bucket of parked VMs)",
		"distinct_cases":                    len(a.cases),
		"shapes":                            a.shapes,
		"inconclusive":                      a.inconclusive,
		"max_threads":                       a.maxThreads,
		"determinism_selftest":              fmt.Sprintf("%d episodes re-executed (GOMAXPROCS 4, 3 workers): identical digests and verdicts", detK),
		"components_real":                   pc.real,
		"components_stub":                   pc.stub,
		"known_findings_seen":               known,
		"exhaustive":                        false,
	}
	ev := map[string]interface{}{
		"property_id": pc.id,
		"tier":        tier,
		"seed":        seed,
		"level":       pc.level,
		"coverage":    cov,
		"assumptions": pc.assume,
		"wall_s":      wall.Seconds(),
		"violations":  nViol,
	}
	os.MkdirAll(filepath.Join(root, "evidence"), 0o755)
	b, _ := json.MarshalIndent(ev, "", " ")
	if err := os.WriteFile(filepath.Join(root, "evidence", pc.id+".json"), append(b, '\n'), 0o644); err != nil {
		fmt.Fprintln(os.Stderr, "writing evidence:", err)
	}
}
