package main

import (
	"encoding/json"
	"fmt"
	"os"
	"path/filepath"
	"strings"
	"time"

	"verif/plan"
)

// minimiseAndRecord shrinks a violating plan while the violation class
// persists, writes the replay file and confirms that replaying it in a fresh
// process reproduces the class. Every candidate runs in its own process.
func minimiseAndRecord(cfg poolCfg, pc *propCfg, p *plan.Plan, class string, first *EpisodeResult) (string, bool) {
	orig := p.Clone()
	budget := 400
	deadline := time.Now().Add(4 * time.Minute)
	tries := 0
	holds := func(q *plan.Plan) bool {
		if tries >= budget || time.Now().After(deadline) {
			return false
		}
		tries++
		r := runOne(cfg, q, false)
		return sameClass(classOf(r), class)
	}
	// the original must reproduce alone in a fresh process first
	r0 := runOne(cfg, p, false)
	if !sameClass(classOf(r0), class) {
		return "", false
	}
	cur := p.Clone()
	for round := 0; round < 4; round++ {
		before := string(cur.JSON())
		cur = reduceTasks(cur, holds)
		cur = reduceOps(cur, holds)
		cur = reduceFaults(cur, holds)
		cur = reduceTape(cur, holds)
		cur = reduceNumbers(cur, holds)
		cur = reduceSources(cur, holds)
		if string(cur.JSON()) == before {
			break
		}
	}
	final := runOne(cfg, cur, false)
	if !sameClass(classOf(final), class) {
		cur = p
		final = r0
	}
	rf := replayFile{Property: pc.id, Class: class, Digest: final.Digest, Detail: firstDetail(final), Seed: orig.Seed, Original: orig, Plan: cur}
	dir := filepath.Join(root, "replays")
	os.MkdirAll(dir, 0o755)
	path := filepath.Join(dir, fmt.Sprintf("%s-%d.json", pc.id, orig.Seed))
	b, _ := json.MarshalIndent(rf, "", " ")
	if err := os.WriteFile(path, append(b, '\n'), 0o644); err != nil {
		fmt.Fprintln(os.Stderr, "writing replay file:", err)
		return "", false
	}
	// replay from the file, fresh process: must reproduce class and digest
	b2, _ := os.ReadFile(path)
	var back replayFile
	json.Unmarshal(b2, &back)
	again := runOne(cfg, back.Plan, false)
	if !sameClass(classOf(again), class) || again.Digest != final.Digest {
		return path, false
	}
	fmt.Printf("minimised seed %d in %d candidate runs: %d->%d ops, %d->%d faults, %d->%d tape entries, %d->%d source lines\n",
		orig.Seed, tries, countOps(orig), countOps(cur), len(orig.Faults), len(cur.Faults), len(orig.Tape), len(cur.Tape), countLines(orig), countLines(cur))
	return path, true
}

func countOps(p *plan.Plan) int {
	n := len(p.Setup)
	for _, t := range p.Tasks {
		n += len(t)
	}
	return n
}

func countLines(p *plan.Plan) int {
	n := 0
	for _, s := range p.Scripts {
		n += strings.Count(s.Src, "\n")
	}
	for _, m := range p.Modules {
		n += strings.Count(m.Src, "\n")
	}
	return n
}

func reduceTasks(p *plan.Plan, holds func(*plan.Plan) bool) *plan.Plan {
	for i := len(p.Tasks) - 1; i >= 0 && len(p.Tasks) > 1; i-- {
		q := p.Clone()
		q.Tasks = append(q.Tasks[:i], q.Tasks[i+1:]...)
		var fs []plan.Fault
		for _, f := range q.Faults {
			if f.Task == i {
				continue
			}
			if f.Task > i {
				f.Task--
			}
			fs = append(fs, f)
		}
		q.Faults = fs
		if holds(q) {
			p = q
		}
	}
	return p
}

func reduceOps(p *plan.Plan, holds func(*plan.Plan) bool) *plan.Plan {
	for ti := range p.Tasks {
		// first try cutting the tail, then single ops
		for cut := len(p.Tasks[ti]) / 2; cut >= 1; cut /= 2 {
			for len(p.Tasks[ti]) > cut {
				q := p.Clone()
				q.Tasks[ti] = q.Tasks[ti][:len(q.Tasks[ti])-cut]
				if !holds(q) {
					break
				}
				p = q
			}
		}
		for i := len(p.Tasks[ti]) - 1; i >= 0; i-- {
			if i >= len(p.Tasks[ti]) {
				continue
			}
			q := p.Clone()
			q.Tasks[ti] = append(q.Tasks[ti][:i], q.Tasks[ti][i+1:]...)
			if holds(q) {
				p = q
			}
		}
	}
	for i := len(p.Setup) - 1; i >= 0; i-- {
		q := p.Clone()
		q.Setup = append(q.Setup[:i], q.Setup[i+1:]...)
		if holds(q) {
			p = q
		}
	}
	return p
}

func reduceFaults(p *plan.Plan, holds func(*plan.Plan) bool) *plan.Plan {
	for i := len(p.Faults) - 1; i >= 0; i-- {
		q := p.Clone()
		q.Faults = append(q.Faults[:i], q.Faults[i+1:]...)
		if holds(q) {
			p = q
		}
	}
	return p
}

func reduceTape(p *plan.Plan, holds func(*plan.Plan) bool) *plan.Plan {
	if len(p.Tape) == 0 {
		return p
	}
	q := p.Clone()
	q.Tape = nil
	if holds(q) {
		return q
	}
	for n := len(p.Tape) / 2; n >= 1; n /= 2 {
		for len(p.Tape) > n {
			q := p.Clone()
			q.Tape = q.Tape[:len(q.Tape)-n]
			if !holds(q) {
				break
			}
			p = q
		}
	}
	for i := range p.Tape {
		if p.Tape[i].Stay == 0 && p.Tape[i].Pick == 0 {
			continue
		}
		q := p.Clone()
		q.Tape[i] = plan.TapeEntry{}
		if holds(q) {
			p = q
			continue
		}
		q = p.Clone()
		q.Tape[i].Stay = 0
		if holds(q) {
			p = q
		}
	}
	return p
}

func reduceNumbers(p *plan.Plan, holds func(*plan.Plan) bool) *plan.Plan {
	try := func(mut func(q *plan.Plan) bool) {
		for i := 0; i < 12; i++ {
			q := p.Clone()
			if !mut(q) {
				return
			}
			if !holds(q) {
				return
			}
			p = q
		}
	}
	for i := range p.Ctxs {
		i := i
		try(func(q *plan.Plan) bool {
			c := &q.Ctxs[i]
			if c.Step > 0 && c.Step < 1<<29 {
				c.Step /= 2
				return true
			}
			return false
		})
		try(func(q *plan.Plan) bool {
			c := &q.Ctxs[i]
			if c.DNs > 1500 {
				c.DNs = (c.DNs/2000)*1000 + 500
				return true
			}
			return false
		})
	}
	for i := range p.Faults {
		i := i
		try(func(q *plan.Plan) bool {
			f := &q.Faults[i]
			if f.Step > 0 {
				f.Step /= 2
				return true
			}
			return false
		})
		try(func(q *plan.Plan) bool {
			f := &q.Faults[i]
			if f.Steps > 0 {
				f.Steps /= 2
				return true
			}
			return false
		})
	}
	return p
}

// reduceSources removes source lines (single lines, then brace-balanced blocks)
// from scripts and modules; candidates that no longer compile fall out because
// they do not reproduce the class.
func reduceSources(p *plan.Plan, holds func(*plan.Plan) bool) *plan.Plan {
	if len(p.Meta) > 0 {
		return p // the oracle's expectation is tied to the generated text (marker tables, DSL statements)
	}
	get := func(q *plan.Plan, k int) *string {
		if k < len(q.Scripts) {
			return &q.Scripts[k].Src
		}
		return &q.Modules[k-len(q.Scripts)].Src
	}
	total := len(p.Scripts) + len(p.Modules)
	for k := 0; k < total; k++ {
		src := *get(p, k)
		if src == "" {
			continue
		}
		ls := strings.Split(strings.TrimRight(src, "\n"), "\n")
		for i := len(ls) - 1; i >= 0; i-- {
			if i >= len(ls) {
				continue
			}
			// candidate 1: the single line; candidate 2: the block starting here
			ends := []int{i + 1}
			if strings.HasSuffix(strings.TrimSpace(ls[i]), "{") {
				depth := 0
				for j := i; j < len(ls); j++ {
					depth += strings.Count(ls[j], "{") - strings.Count(ls[j], "}")
					if depth <= 0 {
						ends = []int{j + 1}
						break
					}
				}
			}
			for _, end := range ends {
				nl := append(append([]string{}, ls[:i]...), ls[end:]...)
				q := p.Clone()
				*get(q, k) = strings.Join(nl, "\n") + "\n"
				if holds(q) {
					p = q
					ls = nl
					break
				}
			}
		}
	}
	return p
}

// sameClass: two race reports of one episode are the same violation even when
// the detector names a different pair of accesses (which pair it reports first
// depends on its shadow-cell history, i.e. on what the process ran before).
func sameClass(a, b string) bool {
	if a == b {
		return true
	}
	i, j := strings.Index(a, ".race:"), strings.Index(b, ".race:")
	return i > 0 && j > 0 && a[:i] == b[:j]
}
