package main

var realCommon = []string{
	"tengo scanner, parser, compiler, optimizer (unmodified)",
	"tengo Script/Compiled API incl. RWMutex, result channel, select, recover (unmodified apart from guarded no-op hook calls)",
	"tengo VM dispatch loop, objects, builtins, formatter",
	"Go context package (WithCancel/WithTimeout/WithDeadline), Go scheduler constrained to one runnable simulated thread",
}

var stubCommon = []string{
	"which thread runs next: seeded controller (schedule tape)",
	"time: testing/synctest fake clock, advanced only by the controller (1 simulated µs per VM instruction)",
	"host functions and builtin host modules: simulator-owned, behaviour per call from the fault plan",
	"cancellation instants, caller stalls, injected panics: fault plan",
	"not simulated and never used: OS, wall clock, rand, file import",
}

func init() {
	props["C07"] = &propCfg{
		id: "C07", level: "exploration", quickN: 20000, thoroughN: 1500000,
		rule: "One episode = one seeded (program, inputs, entry point, context kind, cancellation instant, caller-stall fault, host-block fault, schedule tape). " +
			"A case is (program template | entry point Compiled.RunContext/Script.RunContext/Eval | context kind | state of the run when cancellation took effect: beforeSpawn, beforeVMStart, atVMRunEnter, atStep0, midRun, duringHostCall, afterVMFinished); " +
			"it is non-trivial when the context was cancelled before the call returned. distinct_nontrivial counts distinct such cases; distinct interleavings and abstract states are reported separately.",
		assume: []string{
			"hooks (build tag verif) are placed at the ten hand-off points of RunContext and before every VM instruction; interleavings inside one instruction are not explored",
			"the runtime's choice inside a both-ready select is never asked: the controller makes exactly one of {result, cancellation} visible before the caller enters select (both orders are explored)",
			"promptness bound: 10000 VM instructions after cancellation once the caller is no longer stalled by the simulator",
			"a clean batch is evidence about the explored schedules and programs, not a proof",
		},
		real: realCommon, stub: stubCommon,
	}
}

func init() {
	props["C05"] = &propCfg{
		id: "C05", level: "exploration", quickN: 12000, thoroughN: 1200000,
		rule: "One episode = one seeded hostile program (1-3 idioms out of ~37 idiom families, optionally wrapped in closures/loops, with modules) run through Compiled.RunContext or Script.RunContext " +
			"under a seeded context kind, injected faults (panic from the per-instruction hook, host-function error/nil/panic/block, allocation budget, small string/bytes maxima, caller stall) and schedule, followed by Get/GetAll/IsDefined/Set/RunContext after-care on the same object. " +
			"A case is (idiom set | context kind | class of the hostile run's outcome with numbers removed); non-trivial when that outcome is an error or a cancellation (the program really misbehaved). Worker processes isolate fatal errors.",
		assume: []string{
			"injected panic values are the kinds tengo code and the Go runtime can raise on the VM goroutine (runtime.Error, error, string)",
			"unbounded single allocations are outside the claim and are not generated; worker deaths by memory exhaustion are counted as inconclusive",
			"Clone and plain Run are executed but are not part of the claim",
			"a clean batch is evidence about the explored programs, faults and schedules, not a proof",
		},
		real: realCommon, stub: stubCommon,
	}
}
