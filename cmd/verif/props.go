package main

var realCommon = []string{
	"tengo scanner, parser, compiler, optimizer (unmodified)",
	"tengo Script/Compiled API incl. RWMutex, result channel, select, recover (unmodified apart from guarded no-op hook calls)",
	"tengo VM dispatch loop, objects, builtins, formatter",
	"Go context package (WithCancel/WithTimeout/WithDeadline), Go scheduler constrained to one runnable simulated thread",
}

var stubCommon = []string{
	"which thread runs next: seeded controller (schedule tape)",
	"time: testing/synctest fake clock, advanced only by the controller (1 simulated µs per VM instruction)",
	"host functions and builtin host modules: simulator-owned, behaviour per call from the fault plan",
	"cancellation instants, caller stalls, injected panics: fault plan",
	"not simulated and never used: OS, wall clock, rand, file import",
}

func init() {
	props["C07"] = &propCfg{
		id: "C07", level: "exploration", quickN: 20000, thoroughN: 800000,
		rule: "One episode = one seeded (program, inputs, entry point, context kind, cancellation instant, caller-stall fault, host-block fault, schedule tape). " +
			"A case is (program template | entry point Compiled.RunContext/Script.RunContext/Eval | context kind | state of the run when cancellation took effect: beforeSpawn, beforeVMStart, atVMRunEnter, atStep0, midRun, duringHostCall, afterVMFinished); " +
			"it is non-trivial when the context was cancelled before the call returned. distinct_nontrivial counts distinct such cases; distinct interleavings and abstract states are reported separately. " +
			"A fraction of the episodes (probe enumeratedPrograms) are enumeration episodes: for a short terminating program EVERY cancellation instant k = 0..S+1 is run with each of 9 caller-stall variants, each as a complete sub-episode (counted in evaluations).",
		assume: []string{
			"hooks (build tag verif) are placed at the ten hand-off points of RunContext and before every VM instruction; interleavings inside one instruction are not explored",
			"the runtime's choice inside a both-ready select is never asked: the controller makes exactly one of {result, cancellation} visible before the caller enters select (both orders are explored)",
			"promptness bound: 10000 VM instructions after cancellation once the caller is no longer stalled by the simulator",
			"a clean batch is evidence about the explored schedules and programs, not a proof",
		},
		real: realCommon, stub: stubCommon,
	}
}

func init() {
	props["C05"] = &propCfg{
		id: "C05", level: "exploration", quickN: 12000, thoroughN: 300000,
		rule: "One episode = one seeded hostile program (1-3 idioms out of ~37 idiom families, optionally wrapped in closures/loops, with modules) run through Compiled.RunContext or Script.RunContext " +
			"under a seeded context kind, injected faults (panic from the per-instruction hook, host-function error/nil/panic/block, allocation budget, small string/bytes maxima, caller stall) and schedule, followed by Get/GetAll/IsDefined/Set/RunContext after-care on the same object. " +
			"A case is (idiom set | context kind | class of the hostile run's outcome with numbers removed); non-trivial when that outcome is an error or a cancellation (the program really misbehaved). Worker processes isolate fatal errors.",
		assume: []string{
			"injected panic values are the kinds tengo code and the Go runtime can raise on the VM goroutine (runtime.Error, error, string)",
			"unbounded single allocations are outside the claim and are not generated; worker deaths by memory exhaustion are counted as inconclusive",
			"Clone and plain Run are executed but are not part of the claim",
			"a clean batch is evidence about the explored programs, faults and schedules, not a proof",
		},
		real: realCommon, stub: stubCommon,
	}
}

func init() {
	props["C08"] = &propCfg{
		id: "C08", level: "exploration", race: true, quickN: 3000, thoroughN: 80000, recycle: 300,
		subProp: "C08P", subEvery: 5,
		rule: "One episode = one seeded program assembled from fragments that touch shared constants, compiled functions, source and builtin modules, the file set and the formatter pool; either K=2..5 clones (incl. clones of clones, clones of an object that already ran) each driven by its own thread (Set inputs, Run/RunContext, GetAll, optionally ReplaceBuiltinModule), or 2-3 threads issuing Get/GetAll/IsDefined/Set/Run/RunContext/Clone/Size on ONE object; threads are interleaved per VM instruction and at lock sites by a burst-biased seeded tape. " +
			"Race build: the simulator's hand-offs are invisible to the race detector and sync.Pools are drained at every context switch, so conflicting unsynchronised accesses are reported whatever the timing. A case is (shape | fragment set); non-trivial when the threads were actually interleaved (more context switches than twice the number of threads). " +
			"Second phase (one episode per five, ordinary build, job property C08P): the clone workload with host objects whose String method is a scheduling point inside format calls, a small MaxStringLen so that formatter failure paths are taken, pools never emptied and made deterministic (one P, no GC during the episode): pooled objects may travel between threads. " +
			"Oracle 0 in both phases: before and after the threads run, no two compiled objects reach the same array, map or captured-variable cell from their globals.",
		assume: []string{
			"happens-before analysis by the Go race detector (4 shadow cells per 8 bytes; history_size=2); a report requires both accesses to be executed in the episode",
			"solo baselines and serial witnesses come from a separately compiled copy of the same source with freshly built inputs",
			"Variables returned by Get/GetAll are dereferenced at once only when scalar; containers are dereferenced after all threads have joined (the read is not one of the calls the property names)",
			"ReplaceBuiltinModule is only issued on a clone that has not been cloned itself (the documented pattern)",
			"a clean batch is evidence about the explored programs and schedules, not a proof",
		},
		real: append(append([]string{}, realCommon...), "Go race detector (ThreadSanitizer runtime) observing the real memory accesses of tengo"),
		stub: stubCommon,
	}
}

func init() {
	props["C06"] = &propCfg{
		id: "C06", level: "fault_enumeration", quickN: 3000, thoroughN: 300000,
		rule: "One episode = one generated program. alloc shape: the allocation budget N (the library's own allocation-failure injector) is swept over EVERY allocation index 0..A of the program and of its twin with one more operation of a documented object-creating kind K appended; each run is a fresh compile with fresh inputs through RunContext; relations between runs are the oracle (failure identity below the threshold, success and identical globals at and above it, threshold(p+K) >= threshold(p)+1, calibrated literal ladders need at least as many allocations as literals). " +
			"strlen shape: string/bytes growers under the 4x4 grid of (MaxStringLen, MaxBytesLen) in {8,64,1024,default}, every String/Bytes reachable from the globals measured after every run. recursion shape: depth/width ladders around and beyond the frame and operand-stack capacity. " +
			"evaluations = executed runs; a case is (shape | operation kinds); non-trivial when at least one limited run was driven across its boundary (budget exhausted, length limit hit, capacity exceeded).",
		assume: []string{
			"the fault space enumerated is every allocation index of each generated program; programs themselves are sampled",
			"MaxStringLen/MaxBytesLen are process-wide: one episode at a time per worker process",
			"no constant of the implementation is mirrored except the exported StackSize/MaxFrames read at run time",
		},
		real: realCommon,
		stub: []string{"host function h: simulator-owned (pure)", "allocation failures: Script.SetMaxAllocs used as the injector", "no scheduler or clock involved: single-threaded sweeps"},
	}
}

func init() {
	props["C14"] = &propCfg{
		id: "C14", level: "fault_enumeration", quickN: 1500, thoroughN: 200000,
		rule: "One episode = one generated call-tree program (one statement per line, every function called from one site, recursion with explicit depth counters, closures, a source module, abundant dead code, optionally the whole program as a module of an importing main file). A fault-free run records the dynamic sequence of marker host calls m1..mn; then EVERY k in 1..n (all k up to 300, boundary + sampled above) is re-run with 'fail the k-th host call', every planted failure site (index out of bounds, string limit, bytes limit, ill-typed operand, non-callable) is switched on in turn, the frame-limit ladder is run, and the allocation budget is swept over the first 120 allocation indexes. " +
			"The failing statement and the active call chain are known by construction of the workload. evaluations = executed runs; a case is (shape | number of functions | log2 bucket of the marker sequence length); non-trivial when at least one marker call exists.",
		assume: []string{
			"the location oracle checks file and line (column only for being inside the line): statements are one per line by construction",
			"positions of VM-internal failing operation kinds are covered only where the generator plants them on a marker line (sampled, not enumerated)",
			"programs are sampled; within a program the fault space (which host call fails) is enumerated",
		},
		real: realCommon,
		stub: []string{"host module mk (mark/boom): simulator-owned; the k-th mark call returns the injected error", "allocation failures: Script.SetMaxAllocs", "no scheduler or clock involved: single-threaded fault enumeration"},
	}
}

func init() {
	props["C15"] = &propCfg{
		id: "C15", level: "exploration", quickN: 20000, thoroughN: 800000,
		rule: "One episode = one generated API history. seq shape: one client, up to ~35 operations out of Script.Add/Remove/Compile/Run/RunContext, Compiled.Set/Get(+all typed accessors)/GetAll/IsDefined/Run/RunContext/Clone and Eval, over 1-2 scripts of a tiny effect DSL, with Go values of every documented kind (nested, plus kinds outside the table), optionally with injected faults inside runs (cancellation at a chosen instruction, failing/panicking host call, allocation budget) that leave prefix states; checked operation by operation against the executable reference model (set of possible states). " +
			"conc shape: 2-3 simulated clients issue up to 24 operations on one compiled object and its clones under a seeded schedule; the invoke/return history stamped with controller decision numbers is checked for linearizability with porcupine against the same model. Every written value is unique. A case is (shape | number of distinct operation kinds or clients/ops bucket | faulty); non-trivial when at least 5 operation kinds occur (seq) or the clients were really interleaved (conc).",
		assume: []string{
			"the model follows the documented conversion and coercion tables; cells the documentation leaves open (immutable containers through Array()/Map(), text of an error read back beyond the 'error: ' prefix) are not asserted",
			"aliasing between Go slices/maps handed to Add/Set and script objects, and state sharing between two objects compiled from one Script, are deliberately not asserted",
			"script meaning is fixed by closed-form model code for a tiny effect DSL; no general interpreter is involved",
		},
		real: realCommon, stub: stubCommon,
	}
}
