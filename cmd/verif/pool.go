package main

import (
	"bufio"
	"bytes"
	"encoding/json"
	"fmt"
	"io"
	"os"
	"os/exec"
	"strconv"
	"strings"
	"sync"
	"time"

	"verif/plan"
)

// ---- mirror of the worker's wire types (the orchestrator does not link tengo) ----

type Violation struct {
	Oracle string `json:"oracle"`
	Detail string `json:"detail"`
}

type Finding struct {
	Kind      string `json:"kind"`
	Signature string `json:"signature"`
	Detail    string `json:"detail,omitempty"`
}

type Stats struct {
	Decisions int            `json:"decisions"`
	Switches  int            `json:"switches"`
	VMSteps   int            `json:"vmSteps"`
	SimNs     int64          `json:"simNs"`
	Fired     map[string]int `json:"fired,omitempty"`
	Probes    map[string]int `json:"probes,omitempty"`
	SwitchSig uint64         `json:"switchSig"`
	StateSigs []uint64       `json:"stateSigs,omitempty"`
	Threads   int            `json:"threads"`
}

type EpisodeResult struct {
	ID           int         `json:"id"`
	Prop         string      `json:"prop"`
	Seed         uint64      `json:"seed"`
	Shape        string      `json:"shape"`
	Digest       string      `json:"digest"`
	Violations   []Violation `json:"violations,omitempty"`
	Findings     []Finding   `json:"findings,omitempty"`
	Stats        Stats       `json:"stats"`
	Inconclusive string      `json:"inconclusive,omitempty"`
	Fatal        string      `json:"fatal,omitempty"`
	Case         string      `json:"case,omitempty"`
	Nontrivial   bool        `json:"nontrivial,omitempty"`
	Evals        int         `json:"evals,omitempty"`
	Trace        []string    `json:"trace,omitempty"`
	Recycle      bool        `json:"recycle,omitempty"`
	RaceText     string      `json:"raceText,omitempty"`

	// filled by the orchestrator
	Crash string `json:"crash,omitempty"` // the worker process died during this episode: its last stderr
}

type Job struct {
	ID    int        `json:"id"`
	Prop  string     `json:"prop,omitempty"`
	Seed  uint64     `json:"seed,omitempty"`
	Tier  string     `json:"tier,omitempty"`
	Plan  *plan.Plan `json:"plan,omitempty"`
	Trace bool       `json:"trace,omitempty"`
}

// worker is one worker process.
type worker struct {
	cmd    *exec.Cmd
	stdin  io.WriteCloser
	out    *bufio.Reader
	outF   *os.File
	stderr *tailBuffer
	served int
}

type tailBuffer struct {
	mu  sync.Mutex
	buf []byte
}

func (t *tailBuffer) Write(p []byte) (int, error) {
	t.mu.Lock()
	t.buf = append(t.buf, p...)
	if len(t.buf) > 1<<20 {
		t.buf = append([]byte{}, t.buf[len(t.buf)-(1<<19):]...)
	}
	t.mu.Unlock()
	return len(p), nil
}

func (t *tailBuffer) String() string {
	t.mu.Lock()
	defer t.mu.Unlock()
	return string(t.buf)
}

type poolCfg struct {
	bin        string
	gomaxprocs int
	race       bool
	raceLogDir string
	recycle    int // restart a worker after this many episodes (0 = never)
}

func startWorker(cfg poolCfg) (*worker, error) {
	pr, pw, err := os.Pipe()
	if err != nil {
		return nil, err
	}
	cmd := exec.Command(cfg.bin, "-test.run", "^TestWorker$", "-test.timeout", "0")
	cmd.Env = append(os.Environ(), "VERIF_WORKER=1", "GOMAXPROCS="+strconv.Itoa(cfg.gomaxprocs), "GOTRACEBACK=single")
	if cfg.race {
		cmd.Env = append(cmd.Env, "GORACE=halt_on_error=0 atexit_sleep_ms=0 history_size=7 log_path="+cfg.raceLogDir+"/race")
		cmd.Env = append(cmd.Env, "VERIF_RACELOG="+cfg.raceLogDir+"/race")
	}
	cmd.ExtraFiles = []*os.File{pw}
	w := &worker{cmd: cmd, stderr: &tailBuffer{}}
	cmd.Stderr = w.stderr
	cmd.Stdout = w.stderr
	w.stdin, err = cmd.StdinPipe()
	if err != nil {
		return nil, err
	}
	if err := cmd.Start(); err != nil {
		return nil, err
	}
	pw.Close()
	w.outF = pr
	w.out = bufio.NewReaderSize(pr, 1<<20)
	return w, nil
}

func (w *worker) stop() {
	if w == nil {
		return
	}
	w.stdin.Close()
	done := make(chan struct{})
	go func() { w.cmd.Wait(); close(done) }()
	select {
	case <-done:
	case <-time.After(5 * time.Second):
		w.cmd.Process.Kill()
		<-done
	}
	w.outF.Close()
}

// do sends one job and waits for its result. died=true when the process ended
// before answering (the job is then attributed to the crash).
func (w *worker) do(job *Job) (res *EpisodeResult, died bool, diag string) {
	b, _ := json.Marshal(job)
	b = append(b, '\n')
	if _, err := w.stdin.Write(b); err != nil {
		return nil, true, "write to worker: " + err.Error() + "\n" + w.stderr.String()
	}
	for {
		line, err := w.out.ReadBytes('\n')
		if err != nil {
			w.cmd.Wait()
			return nil, true, w.stderr.String()
		}
		switch {
		case bytes.HasPrefix(line, []byte("BEGIN ")):
			continue
		case bytes.HasPrefix(line, []byte("RESULT ")):
			res = &EpisodeResult{}
			if err := json.Unmarshal(line[7:], res); err != nil {
				return nil, true, "bad result line: " + err.Error()
			}
			w.served++
			return res, false, ""
		case bytes.HasPrefix(line, []byte("WATCHDOG ")):
			w.cmd.Wait()
			return nil, true, "WATCHDOG: episode burnt 60 s of CPU (or 600 s of wall time; 240 s / 1200 s in the race build) without finishing\n" + w.stderr.String()
		default:
			// ERROR lines and anything unexpected
			if bytes.HasPrefix(line, []byte("ERROR")) {
				return nil, true, string(line)
			}
		}
	}
}

// runJobs distributes jobs over n worker processes and calls sink for every
// result (from several goroutines, serialised by a mutex).
func runJobs(cfg poolCfg, n int, jobs []Job, sink func(*Job, *EpisodeResult)) error {
	var mu sync.Mutex
	next := 0
	var firstErr error
	var wg sync.WaitGroup
	for i := 0; i < n; i++ {
		wg.Add(1)
		go func() {
			defer wg.Done()
			var w *worker
			defer func() { w.stop() }()
			for {
				mu.Lock()
				if next >= len(jobs) || firstErr != nil {
					mu.Unlock()
					return
				}
				job := &jobs[next]
				next++
				mu.Unlock()
				if w == nil || (cfg.recycle > 0 && w.served >= cfg.recycle) {
					w.stop()
					var err error
					w, err = startWorker(cfg)
					if err != nil {
						mu.Lock()
						firstErr = err
						mu.Unlock()
						return
					}
				}
				res, died, diag := w.do(job)
				if !died && res.Recycle {
					w.stop()
					w = nil
				}
				if died {
					w.stop()
					w = nil
					res = &EpisodeResult{ID: job.ID, Prop: job.Prop, Seed: job.Seed, Crash: diag}
					if job.Plan != nil {
						res.Prop, res.Seed = job.Plan.Prop, job.Plan.Seed
					}
				}
				mu.Lock()
				sink(job, res)
				mu.Unlock()
			}
		}()
	}
	wg.Wait()
	return firstErr
}

// runOne executes a single plan in a fresh process.
func runOne(cfg poolCfg, p *plan.Plan, trace bool) *EpisodeResult {
	w, err := startWorker(cfg)
	if err != nil {
		return &EpisodeResult{Fatal: "cannot start worker: " + err.Error()}
	}
	defer w.stop()
	job := &Job{ID: 1, Plan: p, Trace: trace}
	res, died, diag := w.do(job)
	if died {
		return &EpisodeResult{ID: 1, Prop: p.Prop, Seed: p.Seed, Crash: diag}
	}
	return res
}

// crashSignature classifies the death of a worker by the runtime's own message.
func crashSignature(stderr string) (kind, sig string) {
	switch {
	case strings.Contains(stderr, "WATCHDOG"):
		return "watchdog", "hang:cpu-budget-of-one-episode-exhausted"
	case strings.Contains(stderr, "fatal error: stack overflow") || strings.Contains(stderr, "goroutine stack exceeds"):
		return "crash", "fatal:stack-exhaustion:" + stackCycle(stderr)
	case strings.Contains(stderr, "fatal error: all goroutines are asleep"):
		return "crash", "fatal:deadlock"
	case strings.Contains(stderr, "fatal error: concurrent map"):
		return "crash", "fatal:concurrent-map"
	case strings.Contains(stderr, "out of memory") || strings.Contains(stderr, "cannot allocate memory"):
		return "resource", "fatal:out-of-memory"
	case strings.Contains(stderr, "unexpected signal") || strings.Contains(stderr, "SIGSEGV"):
		return "crash", "fatal:signal"
	case strings.Contains(stderr, "panic: "):
		i := strings.Index(stderr, "panic: ")
		line := stderr[i:]
		if j := strings.IndexByte(line, '\n'); j > 0 {
			line = line[:j]
		}
		return "crash", "panic:" + line
	case strings.Contains(stderr, "fatal error: "):
		i := strings.Index(stderr, "fatal error: ")
		line := stderr[i:]
		if j := strings.IndexByte(line, '\n'); j > 0 {
			line = line[:j]
		}
		return "crash", "fatal:" + line
	}
	return "crash", "died:unknown"
}

// stackCycle extracts the set of tengo functions in the repeating part of a
// stack-exhaustion trace (sorted, de-duplicated): the identity of the finding.
func stackCycle(stderr string) string {
	seen := map[string]int{}
	for _, line := range strings.Split(stderr, "\n") {
		if !strings.HasPrefix(line, "github.com/d5/tengo/v2") {
			continue
		}
		fn := line
		if i := strings.LastIndex(fn, "("); i > 0 {
			fn = fn[:i]
		}
		fn = strings.TrimPrefix(fn, "github.com/d5/tengo/v2")
		fn = strings.TrimPrefix(fn, ".")
		seen[fn]++
	}
	var fns []string
	for fn, n := range seen {
		if n >= 3 {
			fns = append(fns, fn)
		}
	}
	sortStrings(fns)
	// A cycle made only of the recursive String / Equals / Copy methods of the
	// container types is one defect per method, whatever mixture of container
	// types the script used to close the loop.
	for _, m := range []string{"String", "Equals", "Copy"} {
		all := len(fns) > 0
		for _, fn := range fns {
			if !isContainerMethod(fn, m) {
				all = false
			}
		}
		if all {
			return "cyclic-container:" + m
		}
	}
	return strings.Join(fns, ",")
}

func isContainerMethod(fn, method string) bool {
	for _, t := range []string{"Array", "ImmutableArray", "Map", "ImmutableMap", "Error"} {
		if fn == "(*"+t+")."+method {
			return true
		}
	}
	return false
}

func sortStrings(s []string) {
	for i := 1; i < len(s); i++ {
		for j := i; j > 0 && s[j] < s[j-1]; j-- {
			s[j], s[j-1] = s[j-1], s[j]
		}
	}
}

func fmtDur(d time.Duration) string { return fmt.Sprintf("%.1fs", d.Seconds()) }
