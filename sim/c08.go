package sim

import (
	"fmt"
	"sort"

	"verif/plan"
)

func init() { runners["C08"] = runC08; runners["C08P"] = runC08 }

func buildScripts(e *Engine) error {
	for i := range e.Plan.Scripts {
		s, err := e.BuildScript(&e.Plan.Scripts[i])
		if err != nil {
			return err
		}
		e.Scripts = append(e.Scripts, s)
	}
	return nil
}

func snapshotAll(e *Engine, slots []int) map[int]string {
	out := map[int]string{}
	for _, s := range slots {
		r := e.SoloOps([]plan.Op{{Kind: plan.OpGetAll, Obj: s, Raw: true}})
		out[s] = r[0].Outcome()
	}
	return out
}

func runC08(e *Engine, res *EpisodeResult) {
	p := e.Plan
	// Baseline engine: the same source compiled SEPARATELY (fresh Script, fresh
	// input values). Running it first also warms up lazy initialisation inside
	// the standard library without touching the shared bytecode under test.
	be, err := baselineEngine(p)
	if err != nil {
		res.Fatal = "C08 baseline: " + err.Error()
		return
	}
	bset := be.SoloOps(p.Setup)
	if bset[0].HasErr {
		res.Inconclusive = "compile error"
		res.Case = "compile error: " + errClass(bset[0].Err)
		return
	}
	if err := buildScripts(e); err != nil {
		res.Fatal = "C08 build: " + err.Error()
		return
	}
	tset := e.SoloOps(p.Setup)
	for i := range tset {
		if tset[i].Outcome() != bset[i].Outcome() {
			res.Fatal = fmt.Sprintf("C08: set-up op %d differs between two fresh compilations: %s vs %s", i, tset[i].Outcome(), bset[i].Outcome())
			return
		}
	}
	res.Case = p.Shape + "|" + p.Notes["frags"]
	// oracle 0: after set-up no two objects reach the same mutable memory
	e.checkDisjoint("C08", "after set-up")
	defer func() {
		if e.Fatal == "" && !e.CapHit && !e.Stuck() {
			e.checkDisjoint("C08", "after the episode")
		}
	}()
	switch p.Shape {
	case "clones":
		c08Clones(e, be, res)
	case "single":
		c08Single(e, be, res)
	default:
		res.Fatal = "C08: unknown shape " + p.Shape
	}
}

func c08Clones(e, be *Engine, res *EpisodeResult) {
	p := e.Plan
	// which slots are operated on by tasks
	touched := map[int]bool{}
	for _, t := range p.Tasks {
		for _, op := range t {
			touched[op.Obj] = true
		}
	}
	var idle []int
	for s := 0; s < p.Slots; s++ {
		if e.Objs[s] != nil && !touched[s] {
			idle = append(idle, s)
		}
	}
	before := snapshotAll(e, idle)
	// solo baselines: every task alone, on the separately compiled copy
	want := make([][]*OpResult, len(p.Tasks))
	for ti := range p.Tasks {
		want[ti] = be.SoloOps(p.Tasks[ti])
	}
	e.RunTasks()
	if e.Fatal != "" {
		return
	}
	if e.CapHit {
		res.Inconclusive = "step cap reached"
		return
	}
	res.Nontrivial = e.Stats.Switches > len(p.Tasks)*2
	// oracle 1: solo equivalence
	for ti := range p.Tasks {
		got := e.Results[ti]
		if len(got) != len(want[ti]) {
			e.violate("C08.solo", "task %d completed %d of %d ops", ti, len(got), len(want[ti]))
			continue
		}
		for i := range got {
			if ct, ok := p.Params["cancelTask"]; ok && int(ct) == ti {
				co := int(p.Params["cancelOp"])
				if i == co && got[i].HasErr && got[i].ErrIs["canceled"] {
					e.probe("cloneRunCancelled")
					// a cancelled run may stop anywhere: the following reads of this clone
					// are not comparable, but the final re-run (all inputs set again) is
					continue
				}
				if i > co && i < len(got)-2 && got[co].HasErr && got[co].ErrIs["canceled"] {
					continue
				}
				if i > co && got[co].HasErr && got[co].ErrIs["canceled"] && want[ti][len(got)-2].HasErr {
					// the re-run fails by itself before it has assigned every global:
					// what the cancelled run left behind legitimately shows through
					continue
				}
			}
			if got[i].Outcome() != want[ti][i].Outcome() {
				e.violate("C08.solo", "clone in slot %d, op %d (%s): interleaved execution gives %s; the same ops alone give %s",
					p.Tasks[ti][i].Obj, i, got[i].Kind, clip(got[i].Outcome()), clip(want[ti][i].Outcome()))
				break
			}
		}
	}
	// oracle 2: original and idle clones unchanged, and still produce the solo result
	after := snapshotAll(e, idle)
	for _, s := range idle {
		if before[s] != after[s] {
			e.violate("C08.isolation", "object in slot %d was not operated on, yet its globals changed from %s to %s", s, clip(before[s]), clip(after[s]))
		}
	}
	if len(idle) > 0 {
		s := idle[0]
		ops := []plan.Op{{Kind: plan.OpRun, Obj: s}, {Kind: plan.OpGetAll, Obj: s}}
		g, w := e.SoloOps(ops), be.SoloOps(ops)
		for i := range g {
			if g[i].Outcome() != w[i].Outcome() {
				e.violate("C08.isolation", "idle object in slot %d run afterwards gives %s; a separately compiled copy gives %s", s, clip(g[i].Outcome()), clip(w[i].Outcome()))
				break
			}
		}
	}
	c08Probes(e)
}

func clip(s string) string {
	if len(s) > 400 {
		return s[:400] + "..."
	}
	return s
}

func c08Probes(e *Engine) {
	if e.Plan.Notes["replmod"] != "" {
		e.probe("replaceBuiltinModuleWhileSiblingsRun")
	}
	if e.Plan.Notes["origRanFirst"] != "" {
		e.probe("cloneOfObjectThatRan")
	}
	fails := 0
	for _, rs := range e.Results {
		for _, r := range rs {
			if r.HasErr && isRunOp(r.Kind) {
				fails++
				break
			}
		}
	}
	if fails >= 2 {
		e.probe("runtimeErrorsIn>=2Threads")
	}
}

// c08Single: several threads on one object. Oracle: no race report (checked by
// the harness after the bubble) and a serial witness: re-executing the ops one
// at a time in the order in which they passed their lock sites, on a
// separately compiled copy, gives every op the same result.
func c08Single(e, be *Engine, res *EpisodeResult) {
	p := e.Plan
	e.RunTasks()
	if e.Fatal != "" {
		return
	}
	if e.CapHit {
		res.Inconclusive = "step cap reached"
		return
	}
	res.Nontrivial = e.Stats.Switches > len(p.Tasks)*2
	type item struct {
		ti, i int
		r     *OpResult
	}
	var items []item
	for ti, rs := range e.Results {
		if len(rs) != len(p.Tasks[ti]) {
			e.violate("C08.serial", "task %d completed %d of %d ops", ti, len(rs), len(p.Tasks[ti]))
			return
		}
		for i, r := range rs {
			items = append(items, item{ti, i, r})
		}
	}
	sort.SliceStable(items, func(a, b int) bool {
		if items[a].r.LockStamp != items[b].r.LockStamp {
			return items[a].r.LockStamp < items[b].r.LockStamp
		}
		if items[a].ti != items[b].ti {
			return items[a].ti < items[b].ti
		}
		return items[a].i < items[b].i
	})
	// containers handed out by Get/GetAll are dereferenced after the last op, in
	// the witness exactly as in the concurrent execution
	wit := make([]*OpResult, len(items))
	for k, it := range items {
		wit[k] = be.SoloOps([]plan.Op{p.Tasks[it.ti][it.i]})[0]
	}
	ResolveLate(wit)
	for k, it := range items {
		op := p.Tasks[it.ti][it.i]
		w := wit[k]
		if it.r.Outcome() != w.Outcome() {
			e.violate("C08.serial", "task %d op %d (%s on slot %d) returned %s; executing all ops one at a time in lock order on a separately compiled copy gives %s",
				it.ti, it.i, op.Kind, op.Obj, clip(it.r.Outcome()), clip(w.Outcome()))
			return
		}
	}
	// final globals of every object
	var slots []int
	for s := 0; s < p.Slots; s++ {
		if e.Objs[s] != nil && be.Objs[s] != nil {
			slots = append(slots, s)
		}
	}
	g, w := snapshotAll(e, slots), snapshotAll(be, slots)
	for _, s := range slots {
		if g[s] != w[s] {
			e.violate("C08.serial", "final globals of slot %d are %s; the serial witness ends with %s", s, clip(g[s]), clip(w[s]))
			break
		}
	}
	c08Probes(e)
}
