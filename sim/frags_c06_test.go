package sim

import (
	"strings"
	"testing"

	"verif/gen"
	"verif/plan"
)

// Generator self-test: with default limits and no budget, alloc- and strlen-shaped
// C06 programs must run to their end (a grower that fails half-way hides the rest).
func TestC06ProgramsRunToTheEnd(t *testing.T) {
	bad := map[string]int{}
	n := 0
	for i := uint64(0); i < 600; i++ {
		p := gen.Generate("C06", plan.EpisodeSeed(1, "C06", i), "quick")
		if p.Shape == "recursion" {
			continue
		}
		n++
		sc := p.Scripts[0]
		sc.MaxAllocs, sc.HasLimit = 0, false
		e := NewEngine(p)
		s, err := e.BuildScript(&sc)
		if err != nil {
			t.Fatal(err)
		}
		if _, err := s.Run(); err != nil {
			if strings.Contains(p.Notes["kinds"], "ownError") && strings.Contains(err.Error(), "not callable: int") {
				continue // the program's last statement fails on purpose
			}
			bad[p.Shape+"|"+p.Notes["kinds"]+": "+err.Error()]++
		}
	}
	for k, v := range bad {
		t.Errorf("%d x %s", v, k)
	}
	t.Logf("%d programs", n)
}
