package sim

import (
	"bufio"
	"encoding/json"
	"fmt"
	"os"
	"runtime/debug"
	"syscall"
	"testing"
	"time"

	"verif/gen"
	"verif/plan"
)

// Job is one line of the worker's input.
type Job struct {
	ID    int        `json:"id"`
	Prop  string     `json:"prop,omitempty"`
	Seed  uint64     `json:"seed,omitempty"`
	Tier  string     `json:"tier,omitempty"`
	Plan  *plan.Plan `json:"plan,omitempty"`
	Trace bool       `json:"trace,omitempty"`
}

// TestWorker is the worker process: it reads jobs (seeds or full plans) from
// stdin and writes one result line per job to fd 3 (or stdout if VERIF_OUT=stdout).
func TestWorker(t *testing.T) {
	if os.Getenv("VERIF_WORKER") == "" {
		t.Skip("not a worker invocation")
	}
	debug.SetMaxStack(64 << 20)
	raceWorkerInit()
	limitMemory()
	var out *os.File
	if os.Getenv("VERIF_OUT") == "stdout" {
		out = os.Stdout
	} else {
		out = os.NewFile(3, "results")
	}
	w := bufio.NewWriter(out)
	in := bufio.NewScanner(os.Stdin)
	in.Buffer(make([]byte, 1<<20), 64<<20)
	watch := make(chan int, 1)
	go watchdog(watch, out)
	for in.Scan() {
		line := in.Bytes()
		if len(line) == 0 {
			continue
		}
		var job Job
		if err := json.Unmarshal(line, &job); err != nil {
			fmt.Fprintf(w, "ERROR bad job: %v\n", err)
			w.Flush()
			continue
		}
		betweenEpisodes()
		fmt.Fprintf(w, "BEGIN %d\n", job.ID)
		w.Flush()
		watch <- job.ID
		p := job.Plan
		if p == nil {
			p = gen.Generate(job.Prop, job.Seed, job.Tier)
		}
		emit := func(res *EpisodeResult) {
			res.ID = job.ID
			b, _ := json.Marshal(res)
			w.WriteString("RESULT ")
			w.Write(b)
			w.WriteString("\n")
			w.Flush()
		}
		res := RunPlan(t, p, job.Trace, emit)
		watch <- -1
		if !res.Recycle {
			emit(res)
		} else if res.RaceText == "" {
			// recycled for another reason than a race report (which has already
			// emitted its result from inside the bubble): emit now and leave
			emit(res)
			os.Exit(0)
		}
	}
}

// watchdog kills the worker when one episode has burnt more than 60 s of CPU
// time (a goroutine spinning outside every hook) or 600 s of wall time. CPU time
// is used so that a loaded machine cannot trip it; the heaviest legitimate
// episodes (C07 enumerations in the thorough tier: up to 3 600 sub-episodes)
// take 10-20 s, more when hyper-threads are shared. Exit status 3.
func watchdog(ch chan int, out *os.File) {
	cur := -1
	var cpu0 time.Duration
	var wall0 time.Time
	tick := time.NewTicker(time.Second)
	for {
		select {
		case id := <-ch:
			cur = id
			cpu0, wall0 = cpuTime(), time.Now()
		case <-tick.C:
			cpuCap, wallCap := 60*time.Second, 600*time.Second
			if RaceBuild {
				// race-build episodes are page-fault bound and slow down by two orders
				// of magnitude when the machine is busy
				cpuCap, wallCap = 240*time.Second, 1200*time.Second
			}
			if cur >= 0 && (cpuTime()-cpu0 > cpuCap || time.Since(wall0) > wallCap) {
				fmt.Fprintf(out, "WATCHDOG %d\n", cur)
				os.Exit(3)
			}
		}
	}
}

func cpuTime() time.Duration {
	var ru syscall.Rusage
	if err := syscall.Getrusage(syscall.RUSAGE_SELF, &ru); err != nil {
		return 0
	}
	return time.Duration(ru.Utime.Nano() + ru.Stime.Nano())
}

// limitMemory caps the address space of a (non-race) worker: a script that makes
// the interpreter allocate without bound then kills this worker with the
// runtime's "out of memory" fatal error instead of the whole sandbox.
func limitMemory() {
	if RaceBuild {
		return // the race runtime reserves terabytes of address space
	}
	lim := syscall.Rlimit{Cur: 6 << 30, Max: 6 << 30}
	syscall.Setrlimit(syscall.RLIMIT_AS, &lim)
}
