package sim

import (
	"bufio"
	"encoding/json"
	"fmt"
	"os"
	"runtime/debug"
	"testing"
	"time"

	"verif/gen"
	"verif/plan"
)

// Job is one line of the worker's input.
type Job struct {
	ID    int        `json:"id"`
	Prop  string     `json:"prop,omitempty"`
	Seed  uint64     `json:"seed,omitempty"`
	Tier  string     `json:"tier,omitempty"`
	Plan  *plan.Plan `json:"plan,omitempty"`
	Trace bool       `json:"trace,omitempty"`
}

// TestWorker is the worker process: it reads jobs (seeds or full plans) from
// stdin and writes one result line per job to fd 3 (or stdout if VERIF_OUT=stdout).
func TestWorker(t *testing.T) {
	if os.Getenv("VERIF_WORKER") == "" {
		t.Skip("not a worker invocation")
	}
	debug.SetMaxStack(64 << 20)
	raceWorkerInit()
	var out *os.File
	if os.Getenv("VERIF_OUT") == "stdout" {
		out = os.Stdout
	} else {
		out = os.NewFile(3, "results")
	}
	w := bufio.NewWriter(out)
	in := bufio.NewScanner(os.Stdin)
	in.Buffer(make([]byte, 1<<20), 64<<20)
	watch := make(chan int, 1)
	go watchdog(watch, out)
	for in.Scan() {
		line := in.Bytes()
		if len(line) == 0 {
			continue
		}
		var job Job
		if err := json.Unmarshal(line, &job); err != nil {
			fmt.Fprintf(w, "ERROR bad job: %v\n", err)
			w.Flush()
			continue
		}
		fmt.Fprintf(w, "BEGIN %d\n", job.ID)
		w.Flush()
		watch <- job.ID
		p := job.Plan
		if p == nil {
			p = gen.Generate(job.Prop, job.Seed, job.Tier)
		}
		emit := func(res *EpisodeResult) {
			res.ID = job.ID
			b, _ := json.Marshal(res)
			w.WriteString("RESULT ")
			w.Write(b)
			w.WriteString("\n")
			w.Flush()
		}
		res := RunPlan(t, p, job.Trace, emit)
		watch <- -1
		betweenEpisodes()
		if !res.Recycle {
			emit(res)
		}
	}
}

// watchdog kills the worker when one episode takes more than 60 s of real time
// (a goroutine spinning outside every hook). Exit status 3, never a violation.
func watchdog(ch chan int, out *os.File) {
	cur := -1
	timer := time.NewTimer(time.Hour)
	for {
		select {
		case id := <-ch:
			cur = id
			if !timer.Stop() {
				select {
				case <-timer.C:
				default:
				}
			}
			if id >= 0 {
				timer.Reset(60 * time.Second)
			} else {
				timer.Reset(time.Hour)
			}
		case <-timer.C:
			if cur >= 0 {
				fmt.Fprintf(out, "WATCHDOG %d\n", cur)
				os.Exit(3)
			}
			timer.Reset(time.Hour)
		}
	}
}
