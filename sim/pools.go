package sim

import (
	_ "unsafe" // go:linkname
)

// poolCleanup is the function the garbage collector calls (with the world
// stopped) to age every sync.Pool by one generation; calling it twice empties
// all pools. Pools are the one piece of process-wide state tengo and fmt keep:
// in the race build they would carry vector clocks between simulated threads
// and hide races (DESIGN 3.5), and in every build their contents would make an
// episode depend on what the worker process ran before. The conditions the
// function relies on are arranged by the callers: every other goroutine of the
// process is parked on a channel outside pool code, and no collection can start
// while it runs (collector switched off for the duration).
//
//go:linkname poolCleanup sync.poolCleanup
func poolCleanup()
