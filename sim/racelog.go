package sim

import (
	"fmt"
	"os"
	"sort"
	"strings"
)

// RaceReport is one parsed data-race report of the Go race detector.
type RaceReport struct {
	Identity string // sorted pair of the innermost non-std frames of the two accesses
	Tengo    bool   // both accesses happen in tengo code (or std code called from tengo)
	Text     string
}

var raceLogFile string
var raceLogOff int64

func init() {
	if p := os.Getenv("VERIF_RACELOG"); p != "" {
		raceLogFile = fmt.Sprintf("%s.%d", p, os.Getpid())
	}
}

// newRaceReports returns the reports written since the last call. The race
// detector writes a report synchronously, before the racing access returns.
func newRaceReports() []RaceReport {
	if raceLogFile == "" {
		return nil
	}
	f, err := os.Open(raceLogFile)
	if err != nil {
		return nil
	}
	defer f.Close()
	st, err := f.Stat()
	if err != nil || st.Size() <= raceLogOff {
		return nil
	}
	buf := make([]byte, st.Size()-raceLogOff)
	if _, err := f.ReadAt(buf, raceLogOff); err != nil {
		return nil
	}
	raceLogOff = st.Size()
	return parseRaceReports(string(buf))
}

const tengoPrefix = "github.com/d5/tengo/v2"

func parseRaceReports(text string) []RaceReport {
	var out []RaceReport
	for _, block := range strings.Split(text, "==================") {
		if !strings.Contains(block, "WARNING: DATA RACE") {
			continue
		}
		// the two access stacks are the sections that start with "... at 0x... by ..."
		var ids []string
		tengoBoth := true
		sections := strings.Split(block, "\n\n")
		for _, sec := range sections {
			ls := strings.Split(strings.TrimLeft(sec, "\n"), "\n")
			if len(ls) == 0 {
				continue
			}
			h := ls[0]
			if strings.HasPrefix(h, "WARNING: DATA RACE") && len(ls) > 1 {
				ls = ls[1:]
				h = ls[0]
			}
			isAccess := (strings.HasPrefix(h, "Write at ") || strings.HasPrefix(h, "Read at ") ||
				strings.HasPrefix(h, "Previous write at ") || strings.HasPrefix(h, "Previous read at ") ||
				strings.HasPrefix(h, "Atomic ") || strings.HasPrefix(h, "Previous atomic "))
			if !isAccess {
				continue
			}
			id, isTengo := classifyStack(ls[1:])
			ids = append(ids, id)
			if !isTengo {
				tengoBoth = false
			}
		}
		if len(ids) < 2 {
			tengoBoth = false
			ids = append(ids, "unparsed")
		}
		sort.Strings(ids)
		out = append(out, RaceReport{Identity: strings.Join(ids, "|"), Tengo: tengoBoth, Text: strings.TrimSpace(block)})
	}
	return out
}

// classifyStack finds the innermost frame that is neither runtime nor standard
// library: that is where the access "happens" for attribution purposes.
func classifyStack(ls []string) (string, bool) {
	for _, l := range ls {
		if !strings.HasPrefix(l, "  ") || strings.HasPrefix(l, "      ") {
			continue // file:line lines are indented by six spaces
		}
		fn := strings.TrimSpace(l)
		if i := strings.LastIndex(fn, "("); i > 0 && strings.HasSuffix(fn, ")") {
			fn = fn[:i]
		}
		switch {
		case strings.HasPrefix(fn, tengoPrefix):
			fn = strings.TrimPrefix(fn, tengoPrefix)
			fn = strings.TrimPrefix(fn, ".")
			fn = strings.TrimPrefix(fn, "/")
			return fn, true
		case strings.HasPrefix(fn, "verif/sim.FromGo"), strings.HasPrefix(fn, "verif/sim.RawValue"), strings.HasPrefix(fn, "verif/sim.ObjToValue"),
			strings.HasPrefix(fn, "verif/sim.(*rawWalker)"):
			// a task thread reading, as any embedding program would, the value that
			// Get/GetAll on its own object returned: if that read conflicts with what
			// another execution writes, the two objects share memory
			return "host-read-of-a-returned-value", true
		case strings.HasPrefix(fn, "verif/"):
			return "engine:" + fn, false
		}
	}
	return "std-only", false
}
