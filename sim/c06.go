package sim

import (
	"context"
	"errors"
	"fmt"
	"runtime"
	"sort"
	"strings"

	"github.com/d5/tengo/v2"

	"verif/plan"
)

func init() { runners["C06"] = runC06 }

// limRun is one execution of a script under a limit setting.
type limRun struct {
	buildErr   error // Script.Add / Compile failed
	compileErr bool
	err        error
	panicked   string
	globals    string // canonical text of all globals (by name)
	maxStr     int
	maxBytes   int
}

// runLimited compiles spec afresh (fresh inputs) with allocation budget n
// (n < 0: unlimited) and runs it through RunContext, solo.
func runLimited(e *Engine, spec *plan.Script, n int64) (lr limRun) {
	sp := *spec
	sp.HasLimit = n >= 0
	sp.MaxAllocs = n
	s, err := e.BuildScript(&sp)
	if err != nil {
		lr.buildErr = err
		return
	}
	c, err := s.Compile()
	if err != nil {
		lr.buildErr = err
		lr.compileErr = true
		return
	}
	func() {
		defer func() {
			if r := recover(); r != nil {
				lr.panicked = fmt.Sprint(r)
			}
		}()
		lr.err = c.RunContext(context.Background())
	}()
	vars := plan.Vars{}
	for _, v := range c.GetAll() {
		vars[v.Name()] = RawValue(v.Object())
		WalkLengths(v.Object(), 0, &lr.maxStr, &lr.maxBytes)
	}
	lr.globals = vars.Key()
	return
}

func runC06(e *Engine, res *EpisodeResult) {
	p := e.Plan
	res.Case = p.Shape + "|" + p.Notes["kinds"]
	switch p.Shape {
	case "alloc":
		c06Alloc(e, res)
	case "strlen":
		c06Strlen(e, res)
	case "recursion":
		c06Recursion(e, res)
	default:
		res.Fatal = "C06: unknown shape " + p.Shape
	}
}

// threshold sweeps the budget over every allocation index of the program and
// checks oracles 1 and 2. Returns A (the smallest succeeding budget), or -1.
func c06Threshold(e *Engine, res *EpisodeResult, spec *plan.Script, label string) int64 {
	unl := runLimited(e, spec, -1)
	res.Evals++
	if unl.buildErr != nil || unl.panicked != "" {
		return -1 // does not compile, or panics by itself: not a ladder
	}
	if unl.err != nil && errors.Is(unl.err, tengo.ErrObjectAllocLimit) {
		return -1
	}
	// A program may end in its own run-time error: the "result" of a run is then
	// that error together with the globals, and a budget must not change it either.
	same := func(lr limRun) bool {
		if (lr.err == nil) != (unl.err == nil) {
			return false
		}
		return lr.err == nil || lr.err.Error() == unl.err.Error()
	}
	if unl.err != nil {
		e.probe("ladderEndingInOwnError")
	}
	const hardCap = 4000
	A := int64(-1)
	for n := int64(0); n <= hardCap; n++ {
		lr := runLimited(e, spec, n)
		res.Evals++
		if lr.panicked != "" {
			e.violate("C06.alloc", "%s: budget %d: panic reached the caller: %s", label, n, lr.panicked)
			return -1
		}
		if same(lr) {
			A = n
			if lr.globals != unl.globals {
				e.violate("C06.alloc", "%s: with budget %d the run ends like the unlimited run but its globals are %s; unlimited run gives %s", label, n, clip(lr.globals), clip(unl.globals))
			}
			break
		}
		if lr.err == nil || !errors.Is(lr.err, tengo.ErrObjectAllocLimit) {
			e.violate("C06.alloc", "%s: with budget %d the run ends with %v, which is neither the allocation-limit error nor the outcome of the unlimited run (%v)", label, n, lr.err, unl.err)
			return -1
		}
		e.fired("allocBudgetExhausted")
	}
	if A < 0 {
		res.Inconclusive = "threshold above sweep cap"
		return -1
	}
	// monotone: every budget >= A succeeds with the unlimited result
	for _, n := range []int64{A + 1, A + 2, A + 7, 2*A + 1, 1 << 40} {
		lr := runLimited(e, spec, n)
		res.Evals++
		if !same(lr) || lr.panicked != "" {
			e.violate("C06.alloc", "%s: budget %d gives the unlimited run's outcome but the larger budget %d ends with %v %s", label, A, n, lr.err, lr.panicked)
		} else if lr.globals != unl.globals {
			e.violate("C06.alloc", "%s: budget %d changes the result: %s vs unlimited %s", label, n, clip(lr.globals), clip(unl.globals))
		}
	}
	// the budget is per run: at the threshold the same object succeeds again, and so does a clone
	{
		sp := *spec
		sp.HasLimit, sp.MaxAllocs = true, A
		if s, err := e.BuildScript(&sp); err == nil {
			if c, err := s.Compile(); err == nil {
				e1 := c.RunContext(context.Background())
				e2 := c.RunContext(context.Background())
				cl := c.Clone()
				e3 := cl.RunContext(context.Background())
				e4 := cl.Clone().RunContext(context.Background())
				res.Evals += 4
				okErr := func(x error) bool {
					return (x == nil) == (unl.err == nil) && (x == nil || x.Error() == unl.err.Error())
				}
				if !okErr(e1) || !okErr(e2) || !okErr(e3) || !okErr(e4) {
					e.violate("C06.alloc", "%s: with budget %d the first run gives %v, the second run of the same object %v, a clone %v, a clone of the clone %v", label, A, e1, e2, e3, e4)
				}
				if A > 0 {
					// and one below the threshold a clone fails like the original
					sp.MaxAllocs = A - 1
					if s2, err := e.BuildScript(&sp); err == nil {
						if c2, err := s2.Compile(); err == nil {
							e5 := c2.Clone().RunContext(context.Background())
							res.Evals++
							if e5 == nil || !errors.Is(e5, tengo.ErrObjectAllocLimit) {
								e.violate("C06.alloc", "%s: a clone of an object compiled with budget %d (one below the threshold) ends with %v", label, A-1, e5)
							}
						}
					}
				}
			}
		}
	}
	// a failed limited run leaves the object usable: same object, second run, same outcome
	if A > 0 {
		sp := *spec
		sp.HasLimit, sp.MaxAllocs = true, A-1
		if s, err := e.BuildScript(&sp); err == nil {
			if c, err := s.Compile(); err == nil {
				e1 := c.RunContext(context.Background())
				_ = c.GetAll()
				e2 := c.RunContext(context.Background())
				res.Evals += 2
				if (e1 == nil) != (e2 == nil) || (e1 != nil && e1.Error() != e2.Error()) {
					e.violate("C06.alloc", "%s: re-running the same object after a budget failure gives %v, the first run gave %v", label, e2, e1)
				}
			}
		}
	}
	return A
}

func c06Alloc(e *Engine, res *EpisodeResult) {
	p := e.Plan
	A := c06Threshold(e, res, &p.Scripts[0], "program")
	if A < 0 {
		if res.Inconclusive == "" && len(e.Violations) == 0 {
			res.Inconclusive = "program fails by itself"
		}
		return
	}
	res.Nontrivial = A > 0
	if k := p.Params["calibrated"]; k > 0 {
		e.probe("calibratedLadder")
		// k literal statements are k object creations: a budget of k-1 must not admit them
		if A < k {
			e.violate("C06.alloc", "a program that creates %d objects (one literal per statement) succeeds with an allocation budget of %d", k, A)
		}
	}
	// one more K: the twin needs at least one more
	A2 := c06Threshold(e, res, &p.Scripts[1], "program + one "+p.Notes["K"])
	if A2 < 0 {
		return
	}
	e.probe("twin:" + p.Notes["K"])
	if A2 < A+1 {
		e.violate("C06.alloc:"+p.Notes["K"], "appending one %s operation does not raise the allocation threshold: %d before, %d after (the operation is not counted against the budget)", p.Notes["K"], A, A2)
	}
}

var c06Grid = []int{8, 64, 1024, 0} // 0 = default maximum

func c06Strlen(e *Engine, res *EpisodeResult) {
	p := e.Plan
	spec := &p.Scripts[0]
	defS, defB := tengo.MaxStringLen, tengo.MaxBytesLen
	defer func() { tengo.MaxStringLen, tengo.MaxBytesLen = defS, defB }()
	base := runLimited(e, spec, -1)
	res.Evals++
	if base.buildErr != nil {
		res.Inconclusive = "compile error"
		return
	}
	if base.panicked != "" {
		e.violate("C06.len", "panic reached the caller under default limits: %s", base.panicked)
		return
	}
	type cell struct {
		s, y int
		ok   bool
		skip bool
	}
	var cells []cell
	gridS, gridY := c06Grid, c06Grid
	if s1, ok := p.Params["gridS1"]; ok {
		// maxima drawn per plan besides the fixed ones (ascending order is not needed: the
		// monotonicity oracle below compares every pair of cells)
		gridS = append(append([]int{}, c06Grid...), int(s1), int(p.Params["gridS2"]))
		gridY = []int{8, 64, 0, int(p.Params["gridY1"])}
	}
	for _, S := range gridS {
		for _, Y := range gridY {
			tengo.MaxStringLen, tengo.MaxBytesLen = defS, defB
			if S > 0 {
				tengo.MaxStringLen = S
			}
			if Y > 0 {
				tengo.MaxBytesLen = Y
			}
			lr := runLimited(e, spec, -1)
			res.Evals++
			c := cell{s: tengo.MaxStringLen, y: tengo.MaxBytesLen}
			switch {
			case lr.buildErr != nil:
				// an input or a literal already exceeds the maximum: rejected before the run
				c.skip = true
				e.probe("rejectedBeforeRun")
			case lr.panicked != "":
				e.violate("C06.len", "maxima (%d,%d): panic reached the caller: %s", c.s, c.y, lr.panicked)
			default:
				if lr.maxStr > c.s {
					e.violate("C06.len:string", "maxima (%d,%d): a string of length %d is reachable from the globals after the run (err=%v)", c.s, c.y, lr.maxStr, lr.err)
				}
				if lr.maxBytes > c.y {
					e.violate("C06.len:bytes", "maxima (%d,%d): a bytes value of length %d is reachable from the globals after the run (err=%v)", c.s, c.y, lr.maxBytes, lr.err)
				}
				c.ok = lr.err == nil
				if lr.err == nil && base.err == nil && lr.globals != base.globals {
					e.violate("C06.len", "maxima (%d,%d): run succeeds but globals %s differ from the default-limit run %s", c.s, c.y, clip(lr.globals), clip(base.globals))
				}
				if lr.err != nil && base.err == nil {
					res.Nontrivial = true
					e.fired("lengthLimitHit")
					if !errors.Is(lr.err, tengo.ErrStringLimit) && !errors.Is(lr.err, tengo.ErrBytesLimit) {
						e.violate("C06.len:identity", "maxima (%d,%d): run fails with %q, which is neither the string- nor the bytes-limit error (default-limit run succeeds)", c.s, c.y, lr.err.Error())
					}
				}
				if lr.err == nil && base.err != nil {
					e.violate("C06.len", "maxima (%d,%d): run succeeds although the default-limit run fails with %v", c.s, c.y, base.err)
				}
			}
			cells = append(cells, c)
		}
	}
	// monotone in both maxima
	for _, a := range cells {
		for _, b := range cells {
			if !a.skip && !b.skip && a.ok && !b.ok && b.s >= a.s && b.y >= a.y {
				e.violate("C06.len", "run succeeds under maxima (%d,%d) but fails under the larger maxima (%d,%d)", a.s, a.y, b.s, b.y)
			}
		}
	}
}

func c06Recursion(e *Engine, res *EpisodeResult) {
	p := e.Plan
	spec := &p.Scripts[0]
	depth := p.Params["depth"]
	runtime.GC()
	var m0, m1 runtime.MemStats
	runtime.ReadMemStats(&m0)
	lr := runLimited(e, spec, -1)
	res.Evals++
	runtime.GC()
	runtime.ReadMemStats(&m1)
	if lr.buildErr != nil {
		res.Inconclusive = "compile error"
		return
	}
	if lr.panicked != "" {
		e.violate("C06.rec", "depth %d: panic reached the caller: %s", depth, lr.panicked)
		return
	}
	// spread shapes: the result is the right count or an error - never a silently shortened argument list
	if n, ok := p.Params["spreadN"]; ok {
		res.Nontrivial = true
		e.probe("spreadCall")
		if lr.err == nil {
			want := plan.Int(n).Key()
			if !strings.Contains(lr.globals, "out="+want+";") {
				e.violate("C06.rec:spread", "a call spreading %d arguments returned without error but out is not %d: %s", n, n, clip(lr.globals))
			}
			if n > int64(tengo.StackSize) {
				e.violate("C06.rec:spread", "a call spreading %d arguments (operand stack: %d slots) completed without error", n, tengo.StackSize)
			}
		}
		return
	}
	if _, ok := p.Params["tailSpin"]; ok {
		res.Nontrivial = true
		e.probe("tailSpinAtFullDepth")
		lr2 := runLimited(e, &p.Scripts[1], -1)
		res.Evals++
		if lr2.panicked != "" {
			e.violate("C06.rec", "depth %d with a tail-recursive spin: panic reached the caller: %s", depth, lr2.panicked)
			return
		}
		if (lr.err == nil) != (lr2.err == nil) {
			e.violate("C06.rec:tail", "%d nested calls then a spin of 0 tail calls ends with %v; the same with a spin of 50 tail calls ends with %v (a tail call takes no frame)", depth, lr.err, lr2.err)
		} else if lr.err != nil && errors.Is(lr.err, tengo.ErrStackOverflow) != errors.Is(lr2.err, tengo.ErrStackOverflow) {
			e.violate("C06.rec:tail", "%d nested calls: spin 0 ends with %v, spin 50 with %v", depth, lr.err, lr2.err)
		}
		return
	}
	if k, ok := p.Params["forwardK"]; ok {
		res.Nontrivial = true
		e.probe("spreadForwardingRecursion")
		if lr.err == nil && !strings.Contains(lr.globals, "out="+plan.Int(k).Key()+";") {
			e.violate("C06.rec:spread", "recursion forwarding %d arguments by spread returned without error but out is not %d: %s", k, k, clip(lr.globals))
		}
		return
	}
	capacity := int64(tengo.MaxFrames)
	if int64(tengo.StackSize) < capacity {
		capacity = int64(tengo.StackSize)
	}
	if depth > int64(tengo.StackSize) {
		res.Nontrivial = true
		// deeper than both the frame supply and the operand stack: must end in an error
		if lr.err == nil {
			e.violate("C06.rec", "recursion of depth %d (frames %d, stack %d) completed without error", depth, tengo.MaxFrames, tengo.StackSize)
		}
	}
	if p.Params["oneSlot"] == 1 && depth > int64(tengo.MaxFrames) {
		e.probe("frameLimitLadder")
		if lr.err == nil || !errors.Is(lr.err, tengo.ErrStackOverflow) {
			e.violate("C06.rec:identity", "one-slot frames, depth %d beyond the frame limit %d: run ended with %v, not the stack-overflow error", depth, tengo.MaxFrames, lr.err)
		}
	}
	if lr.err == nil && depth < capacity/64 {
		e.probe("shallowRecursionSucceeds")
	}
	if grow := int64(m1.HeapAlloc) - int64(m0.HeapAlloc); grow > 32<<20 {
		e.violate("C06.rec", "heap in use grew by %d bytes across a recursion of depth %d (unbounded growth)", grow, depth)
	}
	_ = sort.Ints
}
