package sim

import (
	"encoding/json"
	"fmt"
	"sort"
	"strings"
	"time"

	"github.com/anishathalye/porcupine"

	"verif/gen"
	"verif/plan"
)

func init() { runners["C15"] = runC15 }

type c15Input struct {
	op          plan.Op
	hostFaultAt int
	hostKind    string // hostErr hostPanic hostNil
	anyPrefix   bool   // a cancelling context is attached
}

type c15Model struct {
	p    *plan.Plan
	meta gen.C15Meta
}

func (m *c15Model) refs(si int) map[string]bool {
	r := map[string]bool{}
	for _, st := range m.meta.Scripts[si].Stmts {
		switch st.K {
		case "copyx":
			r["inx"] = true
		case "addi", "bump", "arr", "ifblk":
			r["ini"] = true
		case "adds":
			r["ins"] = true
		case "map":
			r["ins"] = true
		case "tick":
			r["tick"] = true
		}
	}
	return r
}

func (m *c15Model) globals(si int) []string {
	var out []string
	for _, st := range m.meta.Scripts[si].Stmts {
		out = append(out, c15ScriptGlobals[st.K]...)
	}
	return out
}

// compile returns the new object or nil (compile error expected).
func (m *c15Model) compile(s *mState, si int) *mObj {
	sc := s.scripts[si]
	if sc == nil {
		sc = &mScript{vars: map[string]plan.Value{}}
	}
	for name := range m.refs(si) {
		if _, ok := sc.vars[name]; !ok {
			return nil
		}
	}
	o := &mObj{script: si, names: map[string]bool{}, store: map[string]plan.Value{}, budget: m.p.Scripts[si].HasLimit}
	for n, v := range sc.vars {
		o.names[n] = true
		o.store[n] = v
	}
	for _, g := range m.globals(si) {
		o.names[g] = true
	}
	return o
}

func hostFnValue(name string) plan.Value { return plan.Value{T: "obj", S: "user-function:" + name} }

// runStep returns the possible successor states of a run on object slot.
func (m *c15Model) runStep(s *mState, slot int, in *c15Input, out *OpResult, plain bool) ([]*mState, string) {
	o := s.objs[slot]
	if o == nil {
		if out.Skip {
			return []*mState{s}, ""
		}
		return nil, "the object does not exist in the model but the call was executed"
	}
	if out.Skip {
		return nil, "the call was skipped but the object exists in the model"
	}
	hostAt := in.hostFaultAt
	outs := mRun(&m.meta.Scripts[o.script], o.store, hostAt, in.hostKind == plan.FaultHostNil, in.anyPrefix || o.budget)
	failed := out.HasErr || out.Panic != ""
	var next []*mState
	var why []string
	for _, oc := range outs {
		if oc.failed != failed {
			why = append(why, fmt.Sprintf("[%s failed=%v]", oc.why, oc.failed))
			continue
		}
		switch oc.why {
		case "prefix":
			if !(out.ErrIs["canceled"] || out.ErrIs["deadline"] || out.ErrIs["alloc"]) {
				continue
			}
		case "host":
			if in.hostKind == plan.FaultHostErr && !out.ErrIs["injected"] {
				why = append(why, "[host error not recognisable]")
				continue
			}
			if in.hostKind == plan.FaultHostPanic && plain && out.Panic == "" {
				continue
			}
		case "stmt":
			if out.ErrIs["canceled"] || out.ErrIs["deadline"] || out.ErrIs["alloc"] || out.ErrIs["injected"] {
				continue
			}
		}
		if out.Panic != "" && !(oc.why == "host" && in.hostKind == plan.FaultHostPanic && plain) {
			why = append(why, "[unexpected panic]")
			continue
		}
		ns := s.clone()
		no := o.clone()
		no.store = oc.store
		ns.objs[slot] = no
		next = append(next, ns)
	}
	if len(next) == 0 {
		return nil, fmt.Sprintf("the run returned %s; the model allows %v", out.summary(), why)
	}
	return next, ""
}

// step: all states the model can be in after op `in` returned `out` from state s.
func (m *c15Model) step(s *mState, in *c15Input, out *OpResult) ([]*mState, string) {
	op := &in.op
	one := func(ns *mState) ([]*mState, string) { return []*mState{ns}, "" }
	objOf := func() (*mObj, bool) {
		o := s.objs[op.Obj]
		if (o == nil) != out.Skip {
			return nil, false
		}
		return o, true
	}
	switch op.Kind {
	case plan.OpAdd:
		var v plan.Value
		ok := true
		if op.Host != "" {
			v = hostFnValue(op.Name)
		} else {
			v, ok = mIn(*op.Val)
		}
		if !ok {
			if !out.HasErr {
				return nil, fmt.Sprintf("Add accepted a Go value of kind %s, which is not in the conversion table", op.Val.T)
			}
			return one(s)
		}
		if out.HasErr {
			return nil, "Add rejected a supported value: " + out.Err
		}
		ns := s.clone()
		sc := &mScript{vars: map[string]plan.Value{}}
		if old := s.scripts[op.Script]; old != nil {
			for k, x := range old.vars {
				sc.vars[k] = x
			}
		}
		sc.vars[op.Name] = v
		ns.scripts[op.Script] = sc
		return one(ns)
	case plan.OpRemove:
		old := s.scripts[op.Script]
		_, exists := map[string]plan.Value(nil)[op.Name]
		if old != nil {
			_, exists = old.vars[op.Name]
		}
		if out.Bool != exists {
			return nil, fmt.Sprintf("Remove(%q) returned %v, the variable existed: %v", op.Name, out.Bool, exists)
		}
		if !exists {
			return one(s)
		}
		ns := s.clone()
		sc := &mScript{vars: map[string]plan.Value{}}
		for k, x := range old.vars {
			if k != op.Name {
				sc.vars[k] = x
			}
		}
		ns.scripts[op.Script] = sc
		return one(ns)
	case plan.OpCompile:
		o := m.compile(s, op.Script)
		ns := s.clone()
		if o == nil {
			if !out.HasErr {
				return nil, "Compile succeeded although the script refers to a variable that is not declared"
			}
			delete(ns.objs, op.Dst)
			return one(ns)
		}
		if out.HasErr {
			return nil, "Compile failed: " + out.Err
		}
		ns.objs[op.Dst] = o
		return one(ns)
	case plan.OpScriptRun, plan.OpScriptRunCtx:
		o := m.compile(s, op.Script)
		ns := s.clone()
		if o == nil {
			if !out.HasErr {
				return nil, "Script.Run succeeded although the script refers to a variable that is not declared"
			}
			delete(ns.objs, op.Dst)
			return one(ns)
		}
		ns.objs[op.Dst] = o
		next, why := m.runStep(ns, op.Dst, in, out, op.Kind == plan.OpScriptRun)
		if out.Panic != "" {
			// a panic through plain Script.Run leaves the caller without the new
			// object: the slot keeps whatever it held before
			for _, x := range next {
				if old, ok := s.objs[op.Dst]; ok {
					x.objs[op.Dst] = old
				} else {
					delete(x.objs, op.Dst)
				}
			}
		}
		return next, why
	case plan.OpRun, plan.OpRunCtx:
		return m.runStep(s, op.Obj, in, out, op.Kind == plan.OpRun)
	case plan.OpClone:
		o, ok := objOf()
		if !ok {
			return nil, "object existence differs between model and implementation"
		}
		if o == nil {
			return one(s)
		}
		ns := s.clone()
		ns.objs[op.Dst] = o.clone()
		return one(ns)
	case plan.OpSet:
		o, ok := objOf()
		if !ok {
			return nil, "object existence differs between model and implementation"
		}
		if o == nil {
			return one(s)
		}
		v, conv := mIn(*op.Val)
		if !conv || !o.names[op.Name] {
			if !out.HasErr {
				return nil, fmt.Sprintf("Set(%q, %s) succeeded; declared=%v, value kind supported=%v", op.Name, op.Val.T, o.names[op.Name], conv)
			}
			return one(s)
		}
		if out.HasErr {
			return nil, fmt.Sprintf("Set(%q) of a supported value on a declared name failed: %s", op.Name, out.Err)
		}
		ns := s.clone()
		no := o.clone()
		no.store[op.Name] = v
		ns.objs[op.Obj] = no
		return one(ns)
	case plan.OpGet:
		o, ok := objOf()
		if !ok {
			return nil, "object existence differs between model and implementation"
		}
		if o == nil {
			return one(s)
		}
		want := plan.Nil()
		if o.names[op.Name] {
			if v, ok := o.store[op.Name]; ok {
				want = v
			}
		}
		if out.Val == nil {
			return nil, "Get returned nothing"
		}
		if want.T == "obj" {
			if out.Val.T != "obj" || out.Val.S != want.S {
				return nil, fmt.Sprintf("Get(%q) = %s, expected the host function object", op.Name, out.Val.Key())
			}
			return one(s)
		}
		if !valueMatches(*out.Val, mOut(want), nil) {
			return nil, fmt.Sprintf("Get(%q).Value() = %s; last value set or assigned reads back as %s", op.Name, out.Val.Key(), mOut(want).Key())
		}
		if mm := accessorMismatch(out.Acc, want); mm != "" {
			return nil, fmt.Sprintf("Get(%q) holding %s: %s", op.Name, want.Key(), mm)
		}
		return one(s)
	case plan.OpGetAll:
		o, ok := objOf()
		if !ok {
			return nil, "object existence differs between model and implementation"
		}
		if o == nil {
			return one(s)
		}
		var wantNames, gotNames []string
		for n := range o.names {
			wantNames = append(wantNames, n)
		}
		for n := range out.Vars {
			gotNames = append(gotNames, n)
		}
		sort.Strings(wantNames)
		sort.Strings(gotNames)
		if strings.Join(wantNames, ",") != strings.Join(gotNames, ",") {
			return nil, fmt.Sprintf("GetAll returned the names %v; declared names are %v", gotNames, wantNames)
		}
		for _, n := range wantNames {
			want := plan.Nil()
			if v, ok := o.store[n]; ok {
				want = v
			}
			got := out.Vars[n]
			if want.T == "obj" {
				if got.T != "obj" {
					return nil, fmt.Sprintf("GetAll: %s = %s, expected the host function object", n, got.Key())
				}
				continue
			}
			if !valueMatches(got, mOut(want), nil) {
				return nil, fmt.Sprintf("GetAll: %s = %s; last value set or assigned reads back as %s", n, got.Key(), mOut(want).Key())
			}
		}
		return one(s)
	case plan.OpIsDefined:
		o, ok := objOf()
		if !ok {
			return nil, "object existence differs between model and implementation"
		}
		if o == nil {
			return one(s)
		}
		v, has := o.store[op.Name]
		want := o.names[op.Name] && has && v.T != "nil"
		if out.Bool != want {
			return nil, fmt.Sprintf("IsDefined(%q) = %v; declared=%v value=%s", op.Name, out.Bool, o.names[op.Name], v.Key())
		}
		return one(s)
	case plan.OpEval:
		a, b, str := op.Val.M["a"].I, op.Val.M["b"].I, op.Val.M["s"].S
		var want plan.Value
		switch op.Expr {
		case "a + b * 2":
			want = plan.Int(a + b*2)
		case "s + \"x\"":
			want = plan.Str(str + "x")
		case "[a, b][1]":
			want = plan.Int(b)
		case "a > b ? a : b":
			want = plan.Int(a)
			if b > a {
				want = plan.Int(b)
			}
		case "{k: a}.k":
			want = plan.Int(a)
		case "len(s) + a":
			want = plan.Int(int64(len(str)) + a)
		case "ab - a":
			want = plan.Int(op.Val.M["ab"].I - a)
		case "abc - ab + a":
			want = plan.Int(op.Val.M["abc"].I - op.Val.M["ab"].I + a)
		case "cpy + 1":
			want = plan.Int(op.Val.M["cpy"].I + 1)
		case "'a' + 1":
			want = plan.Rune('b')
		case "bytes(s)":
			want = plan.Bytes([]byte(str))
		case "undefined":
			want = plan.Nil()
		case "error(s)":
			want = plan.Value{T: "error"}
		case "[a, {k: b}]":
			want = plan.Value{T: "array", A: []plan.Value{plan.Int(a), plan.Map(map[string]plan.Value{"k": plan.Int(b)})}}
		case "immutable([a])":
			want = plan.Value{T: "array", A: []plan.Value{plan.Int(a)}}
		case "time(b)":
			want = plan.Value{T: "time", I: b}
		case "a / 2.0":
			want = plan.Float(float64(a) / 2.0)
		case "s[1]":
			want = plan.Rune(rune(str[1]))
		case "type_name(im[0]) + \"|\" + type_name(im[1]) + \"|\" + type_name(im[2])":
			want = plan.Str("immutable-array|immutable-map|array")
		case "is_immutable_array(mm.k) && is_array(mm.j) && !is_immutable_array(mm.j)":
			want = plan.Bool(true)
		case "im[0][0] + im[1].k + mm.k[0]":
			want = plan.Int(a + b + b)
		case "{}":
			want = plan.Map(nil)
		case "[]":
			want = plan.Value{T: "array"}
		case "a == b":
			want = plan.Bool(a == b)
		}
		if out.HasErr || out.Val == nil || !valueMatches(*out.Val, want, nil) {
			return nil, fmt.Sprintf("Eval(%q) returned %s, expected %s", op.Expr, out.Outcome(), want.Key())
		}
		return one(s)
	case plan.OpSize:
		return one(s)
	}
	return nil, "model has no rule for op " + op.Kind
}

func runC15(e *Engine, res *EpisodeResult) {
	p := e.Plan
	m := &c15Model{p: p}
	if err := json.Unmarshal(p.Meta, &m.meta); err != nil {
		res.Fatal = "C15: bad meta: " + err.Error()
		return
	}
	// scripts start empty (inputs are added by ops)
	for i := range p.Scripts {
		s, err := e.BuildScript(&p.Scripts[i])
		if err != nil {
			res.Fatal = "C15 build: " + err.Error()
			return
		}
		e.Scripts = append(e.Scripts, s)
	}
	state := &mState{scripts: map[int]*mScript{}, objs: map[int]*mObj{}}
	// set-up (solo), folded through the model as well
	setup := e.SoloOps(p.Setup)
	for i, r := range setup {
		in := &c15Input{op: p.Setup[i]}
		next, why := m.step(state, in, r)
		if len(next) == 0 {
			e.violate("C15.seq", "set-up op %d (%s): %s", i, p.Setup[i].Kind, why)
			return
		}
		state = next[0]
	}
	e.RunTasks()
	if e.Fatal != "" {
		return
	}
	if e.CapHit {
		res.Inconclusive = "step cap reached"
		return
	}
	res.Case = p.Shape
	switch p.Shape {
	case "seq":
		c15Seq(e, res, m, state)
	case "conc":
		c15Conc(e, res, m, state)
	}
}

func (m *c15Model) inputFor(ti, runIdx int, op plan.Op) *c15Input {
	in := &c15Input{op: op}
	if op.Ctx > 0 && op.Ctx <= len(m.p.Ctxs) && m.p.Ctxs[op.Ctx-1].Kind != "background" {
		in.anyPrefix = true
	}
	// per host-call index the first matching fault of the plan applies (as in the
	// engine); a call that returns (nil, nil) has no effect, the first failing
	// or panicking call ends the run
	byCall := map[int]string{}
	for _, f := range m.p.Faults {
		if f.Task == ti && f.Run == runIdx {
			switch f.Kind {
			case plan.FaultHostErr, plan.FaultHostPanic, plan.FaultHostNil:
				if _, ok := byCall[f.Call]; !ok {
					byCall[f.Call] = f.Kind
				}
			}
		}
	}
	for call, kind := range byCall {
		if kind == plan.FaultHostNil {
			continue
		}
		if in.hostFaultAt == 0 || call < in.hostFaultAt {
			in.hostFaultAt, in.hostKind = call, kind
		}
	}
	return in
}

// c15Seq: operation-by-operation refinement of one client's history.
func c15Seq(e *Engine, res *EpisodeResult, m *c15Model, state *mState) {
	p := e.Plan
	got := e.Results[0]
	states := []*mState{state}
	runIdx := 0
	kinds := map[string]bool{}
	for i, r := range got {
		op := p.Tasks[0][i]
		in := m.inputFor(0, runIdx, op)
		if isRunOp(op.Kind) {
			runIdx++
		}
		if r.unwound {
			res.Inconclusive = "episode unwound"
			return
		}
		if r.Panic != "" && !(in.hostKind == plan.FaultHostPanic && (op.Kind == plan.OpRun || op.Kind == plan.OpScriptRun)) {
			e.violate("C15.seq", "op %d (%s): panic reached the caller: %s", i, op.Kind, r.Panic)
			return
		}
		var next []*mState
		seen := map[string]bool{}
		why := ""
		for _, s := range states {
			ns, w := m.step(s, in, r)
			if w != "" {
				why = w
			}
			for _, x := range ns {
				k := x.key()
				if !seen[k] {
					seen[k] = true
					next = append(next, x)
				}
			}
		}
		if len(next) == 0 {
			e.violate("C15.seq:"+op.Kind, "op %d (%s %s on slot %d): %s [history so far: %s]", i, op.Kind, op.Name, op.Obj, why, c15History(p.Tasks[0][:i+1]))
			return
		}
		if len(next) > 1 {
			e.probe("modelNondeterministic")
		}
		if len(next) > 400 {
			res.Inconclusive = "model state set too large"
			return
		}
		states = next
		kinds[op.Kind] = true
	}
	if len(got) < len(p.Tasks[0]) {
		res.Inconclusive = "not all ops completed"
		return
	}
	res.Nontrivial = len(kinds) >= 5
	res.Case = "seq|" + fmt.Sprint(len(kinds)) + "kinds|faulty=" + p.Notes["faulty"]
}

func c15History(ops []plan.Op) string {
	var parts []string
	from := 0
	if len(ops) > 14 {
		from = len(ops) - 14
		parts = append(parts, "...")
	}
	for _, op := range ops[from:] {
		s := op.Kind
		if op.Name != "" {
			s += "(" + op.Name + ")"
		}
		if op.Kind != plan.OpAdd && op.Kind != plan.OpRemove && op.Kind != plan.OpEval {
			s += fmt.Sprintf("@%d", op.Obj)
		}
		if op.Dst != 0 || op.Kind == plan.OpClone || op.Kind == plan.OpCompile {
			s += fmt.Sprintf("->%d", op.Dst)
		}
		parts = append(parts, s)
	}
	return strings.Join(parts, " ")
}

// c15Conc: the invoke/return history of 2-3 clients, stamped with controller
// decision numbers, must be linearizable with respect to the model.
func c15Conc(e *Engine, res *EpisodeResult, m *c15Model, init *mState) {
	p := e.Plan
	var ops []porcupine.Operation
	for ti, rs := range e.Results {
		if len(rs) != len(p.Tasks[ti]) {
			res.Inconclusive = "not all ops completed"
			return
		}
		for i, r := range rs {
			if r.Panic != "" {
				e.violate("C15.conc", "task %d op %d (%s): panic reached the caller: %s", ti, i, r.Kind, r.Panic)
				return
			}
			ops = append(ops, porcupine.Operation{ClientId: ti, Input: &c15Input{op: p.Tasks[ti][i]}, Call: int64(2 * r.Invoke), Output: r, Return: int64(2*r.Return + 1)})
		}
	}
	model := porcupine.Model{
		Init: func() interface{} { return init },
		Step: func(st, in, out interface{}) (bool, interface{}) {
			next, _ := m.step(st.(*mState), in.(*c15Input), out.(*OpResult))
			if len(next) == 0 {
				return false, st
			}
			return true, next[0]
		},
		Equal: func(a, b interface{}) bool { return a.(*mState).key() == b.(*mState).key() },
	}
	switch porcupine.CheckOperationsTimeout(model, ops, 30*time.Second) {
	case porcupine.Illegal:
		var hist []string
		sort.Slice(ops, func(i, j int) bool { return ops[i].Call < ops[j].Call })
		for _, o := range ops {
			in, out := o.Input.(*c15Input), o.Output.(*OpResult)
			hist = append(hist, fmt.Sprintf("T%d[%d..%d] %s(%s)@%d => %s", o.ClientId, o.Call, o.Return, in.op.Kind, in.op.Name, in.op.Obj, clipN(out.Outcome(), 80)))
		}
		// diagnostic: the order in which the operations passed their lock sites
		diag := ""
		byLock := append([]porcupine.Operation{}, ops...)
		sort.SliceStable(byLock, func(i, j int) bool {
			return byLock[i].Output.(*OpResult).LockStamp < byLock[j].Output.(*OpResult).LockStamp
		})
		st := init
		for _, o := range byLock {
			next, why := m.step(st, o.Input.(*c15Input), o.Output.(*OpResult))
			if len(next) == 0 {
				in := o.Input.(*c15Input)
				diag = fmt.Sprintf(" [in lock order the first operation the model rejects is T%d %s(%s)@%d: %s]", o.ClientId, in.op.Kind, in.op.Name, in.op.Obj, why)
				break
			}
			st = next[0]
		}
		e.violate("C15.conc", "history of %d operations by %d clients is not linearizable with respect to the reference model%s: %s", len(ops), len(p.Tasks), diag, strings.Join(hist, " ; "))
	case porcupine.Unknown:
		res.Inconclusive = "linearizability check timed out"
	default:
		e.probe("linearizableHistory")
	}
	res.Nontrivial = e.Stats.Switches > len(p.Tasks)*2
	res.Case = fmt.Sprintf("conc|%dclients|%dops", len(p.Tasks), bucket(len(ops)))
}

func clipN(s string, n int) string {
	if len(s) > n {
		return s[:n] + "..."
	}
	return s
}
