//go:build race

package sim

import "runtime"

// RaceBuild reports whether the worker was built with the race detector.
const RaceBuild = true

// raceDisable/raceEnable bracket the simulator's own hand-off operations so
// that parking and releasing threads creates no happens-before edge between
// simulated threads (DESIGN 3.5).
func raceDisable() { runtime.RaceDisable() }
func raceEnable()  { runtime.RaceEnable() }

// drainPools empties every sync.Pool: the first GC moves pool contents to the
// victim cache, the second drops it. Pools are an incidental synchroniser that
// would otherwise transfer vector clocks between simulated threads.
func drainPools() {
	runtime.GC()
	runtime.GC()
}
