//go:build race

package sim

import (
	"os"
	"strconv"
	"runtime"
	"runtime/debug"
	_ "unsafe" // go:linkname
)

// RaceBuild reports whether the worker was built with the race detector.
const RaceBuild = true

// raceDisable/raceEnable bracket the simulator's own hand-off operations so
// that parking and releasing threads creates no happens-before edge between
// simulated threads (DESIGN 3.5).
func raceDisable() { runtime.RaceDisable() }
func raceEnable()  { runtime.RaceEnable() }

// poolCleanup is the function the garbage collector calls (with the world
// stopped) to age every sync.Pool by one generation. The simulator calls it
// twice at each context switch, which empties all pools: pools are an
// incidental synchroniser that would otherwise transfer vector clocks between
// simulated threads and hide races (DESIGN 3.5). The conditions it relies on
// hold at that moment: every other goroutine of the process is parked on a
// channel outside pool code, and the collector is switched off for the
// duration of an episode (raceWorkerInit / betweenEpisodes), so it cannot run
// its own clean-up concurrently.
//
//go:linkname poolCleanup sync.poolCleanup
func poolCleanup()

func drainPools() {
	poolCleanup()
	poolCleanup()
}

// raceWorkerInit switches the collector off; betweenEpisodes collects when
// nothing of the simulation is running.
func raceWorkerInit() {
	if os.Getenv("VERIF_GCMODE") == "default" {
		return
	}
	debug.SetGCPercent(-1)
}

var gcCounter int

func betweenEpisodes() {
	if os.Getenv("VERIF_GCMODE") == "default" {
		return
	}
	gcCounter++
	if n, _ := strconv.Atoi(os.Getenv("VERIF_GCEVERY")); n > 0 {
		if gcCounter%n == 0 {
			runtime.GC()
		}
		return
	}
	if gcCounter%8 == 0 {
		runtime.GC()
	}
}
