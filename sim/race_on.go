//go:build race

package sim

import (
	"os"
	"runtime"
	"runtime/debug"
)

// RaceBuild reports whether the worker was built with the race detector.
const RaceBuild = true

// raceDisable/raceEnable bracket the simulator's own hand-off operations so
// that parking and releasing threads creates no happens-before edge between
// simulated threads (DESIGN 3.5).
func raceDisable() { runtime.RaceDisable() }
func raceEnable()  { runtime.RaceEnable() }

func drainPools() {
	poolCleanup()
	poolCleanup()
}

// raceWorkerInit switches the collector off; betweenEpisodes collects when
// nothing of the simulation is running.
func raceWorkerInit() {
	if os.Getenv("VERIF_GCMODE") == "default" {
		return
	}
	debug.SetGCPercent(-1)
}

func betweenEpisodes() {
	if os.Getenv("VERIF_GCMODE") == "default" {
		return
	}
	// one collection empties nothing for good (victim cache), two do; the race
	// build additionally drains at every context switch inside an episode
	runtime.GC()
	runtime.GC()
}
