package sim

import (
	"fmt"
	"sort"
	"strings"

	"github.com/d5/tengo/v2"
)

// Memory that a script can write through: arrays, maps and the cells of
// captured variables. No such object may be reachable from the globals of two
// different compiled objects (a clone and its original, two clones): whatever
// one of them does to it shows up in the other.

type mutableSet map[interface{}]string // pointer -> description of one path to it

func reachMutable(c *tengo.Compiled) mutableSet {
	out := mutableSet{}
	seen := map[tengo.Object]bool{}
	var walk func(o tengo.Object, path string, depth int)
	walk = func(o tengo.Object, path string, depth int) {
		if o == nil || depth > 48 {
			return
		}
		switch x := o.(type) {
		case *tengo.Array:
			if seen[o] {
				return
			}
			seen[o] = true
			out[x] = "array " + path
			for i, e := range x.Value {
				walk(e, fmt.Sprintf("%s[%d]", path, i), depth+1)
			}
		case *tengo.ImmutableArray:
			if seen[o] {
				return
			}
			seen[o] = true
			for i, e := range x.Value {
				walk(e, fmt.Sprintf("%s[%d]", path, i), depth+1)
			}
		case *tengo.Map:
			if seen[o] {
				return
			}
			seen[o] = true
			out[x] = "map " + path
			for _, k := range sortedObjKeys(x.Value) {
				walk(x.Value[k], path+"."+k, depth+1)
			}
		case *tengo.ImmutableMap:
			if seen[o] {
				return
			}
			seen[o] = true
			if _, isModule := x.Value["__module_name__"]; isModule {
				// the table of a builtin module is a constant of the bytecode, which
				// clones share by design; what it holds is the module author's business
				return
			}
			for _, k := range sortedObjKeys(x.Value) {
				walk(x.Value[k], path+"."+k, depth+1)
			}
		case *tengo.Error:
			walk(x.Value, path+".value", depth+1)
		case *tengo.CompiledFunction:
			if seen[o] {
				return
			}
			seen[o] = true
			for i, cell := range x.Free {
				if cell == nil {
					continue
				}
				out[cell] = fmt.Sprintf("closure-cell captured variable #%d of the function in %s", i, path)
				if cell.Value != nil {
					walk(*cell.Value, fmt.Sprintf("%s<free %d>", path, i), depth+1)
				}
			}
		}
	}
	vars := c.GetAll()
	sort.Slice(vars, func(i, j int) bool { return vars[i].Name() < vars[j].Name() })
	for _, v := range vars {
		walk(v.Object(), v.Name(), 0)
	}
	return out
}

func sortedObjKeys(m map[string]tengo.Object) []string {
	ks := make([]string, 0, len(m))
	for k := range m {
		ks = append(ks, k)
	}
	sort.Strings(ks)
	return ks
}

// checkDisjoint reports (as violations of oracle "<prop>.shared:<kind>") every
// pair of live slots whose globals reach the same mutable object. Solo mode only.
func (e *Engine) checkDisjoint(prop, when string) bool {
	var slots []int
	sets := map[int]mutableSet{}
	for s, c := range e.Objs {
		if c != nil {
			slots = append(slots, s)
			sets[s] = reachMutable(c)
		}
	}
	found := false
	for i := 0; i < len(slots); i++ {
		for j := i + 1; j < len(slots); j++ {
			a, b := sets[slots[i]], sets[slots[j]]
			if e.Objs[slots[i]] == e.Objs[slots[j]] {
				continue // the same object under two slot numbers
			}
			var hits []string
			for ptr, da := range a {
				if db, ok := b[ptr]; ok {
					hits = append(hits, da+" == "+db)
				}
			}
			if len(hits) == 0 {
				continue
			}
			// what is only reachable through a shared cell is a consequence of the cell
			var direct []string
			for _, h := range hits {
				if !strings.HasPrefix(h, "closure-cell") && !(strings.Contains(h, "<free ") && strings.Contains(h[strings.Index(h, " == "):], "<free ")) {
					direct = append(direct, h)
				}
			}
			sort.Strings(hits)
			sort.Strings(direct)
			kind := "closure-cell"
			if len(direct) > 0 {
				hits = direct
				kind = "array"
				if strings.HasPrefix(direct[0], "map") {
					kind = "map"
				}
			}
			found = true
			e.violate(prop+".shared:"+kind, "%s: the compiled objects in slots %d and %d reach the same mutable memory (%d objects), e.g. %s",
				when, slots[i], slots[j], len(hits), hits[0])
		}
	}
	return found
}
