package sim

import (
	"testing"

	"verif/gen"
	"verif/plan"
)

// Every C08 fragment that is meant to succeed must run to its last line, for a
// range of inputs, on the tree under test (go test -tags verif -run Fragments ./sim).
func TestC08FragmentsRunToTheEnd(t *testing.T) {
	for name, p := range gen.C08FragmentPlans() {
		for inp := int64(0); inp < 12; inp++ {
			p.Scripts[0].Inputs[0].Val = plan.GoInt(inp)
			e := NewEngine(p)
			s, err := e.BuildScript(&p.Scripts[0])
			if err != nil {
				t.Errorf("%s: %v", name, err)
				break
			}
			if _, err := s.Run(); err != nil {
				t.Errorf("fragment %s, inp=%d: %v", name, inp, err)
				break
			}
		}
	}
}
