package sim

import (
	"context"
	"encoding/json"
	"errors"
	"fmt"
	"strconv"
	"strings"

	"github.com/d5/tengo/v2"

	"verif/gen"
)

func init() { runners["C14"] = runC14 }

type c14loc struct {
	file string
	line int
	col  int
}

func (l c14loc) String() string { return fmt.Sprintf("%s:%d", l.file, l.line) }

// parseTrace extracts the locations after "at" from a run-time error text.
func parseTrace(text string) ([]c14loc, bool) {
	parts := strings.Split(text, "\n\tat ")
	if len(parts) < 2 {
		return nil, false
	}
	var out []c14loc
	for _, p := range parts[1:] {
		p = strings.TrimSpace(p)
		i := strings.LastIndex(p, ":")
		if i < 0 {
			return nil, false
		}
		j := strings.LastIndex(p[:i], ":")
		if j < 0 {
			return nil, false
		}
		line, e1 := strconv.Atoi(p[j+1 : i])
		col, e2 := strconv.Atoi(p[i+1:])
		if e1 != nil || e2 != nil {
			return nil, false
		}
		out = append(out, c14loc{file: p[:j], line: line, col: col})
	}
	return out, true
}

// chain computes, innermost first, the call-site locations of the active calls
// when a statement of function fn executes with depth counter d.
func c14Chain(m *gen.C14Meta, fn string, d int) []c14loc {
	var out []c14loc
	for {
		f, ok := m.Funcs[fn]
		if !ok {
			return out
		}
		if f.RecLine > 0 {
			for i := 0; i < f.Depth-d; i++ {
				out = append(out, c14loc{file: f.File, line: f.RecLine})
			}
		}
		out = append(out, c14loc{file: f.CallFile, line: f.CallLine})
		fn, d = f.Parent, 0
	}
}

func c14Run(e *Engine, c *tengo.Compiled) (err error, panicked string) {
	defer func() {
		if r := recover(); r != nil {
			panicked = fmt.Sprint(r)
		}
	}()
	err = c.Clone().RunContext(context.Background())
	return
}

func runC14(e *Engine, res *EpisodeResult) {
	p := e.Plan
	var m gen.C14Meta
	if err := json.Unmarshal(p.Meta, &m); err != nil {
		res.Fatal = "C14: bad meta: " + err.Error()
		return
	}
	res.Case = p.Shape
	s, err := e.BuildScript(&p.Scripts[0])
	if err != nil {
		res.Fatal = "C14 build: " + err.Error()
		return
	}
	c, err := s.Compile()
	if err != nil {
		res.Inconclusive = "compile error"
		res.Case = "compile error: " + errClass(err.Error())
		return
	}
	// fault-free run: the dynamic sequence of marker calls
	e.SoloMarkers(0, 0)
	err, pn := c14Run(e, c)
	res.Evals++
	if err != nil || pn != "" {
		res.Inconclusive = "fault-free run fails"
		res.Case = "fault-free run fails: " + errClass(fmt.Sprint(err, pn))
		return
	}
	log := append([]HostCallRec{}, e.SoloLog()...)
	for _, rec := range log {
		if mk, ok := m.Markers[int(rec.Arg)]; ok && mk.Dead {
			e.violate("C14.dead", "marker %d at %s:%d is in unreachable code but was executed", rec.Arg, mk.File, mk.Line)
		}
	}
	n := len(log)
	res.Case = fmt.Sprintf("%s|funcs=%d|markers=%d", p.Shape, len(m.Funcs), bucket(n))
	res.Nontrivial = n > 0
	check := func(what string, err error, pn string, siteID int, d int, wantIs error) {
		if pn != "" {
			e.violate("C14.panic", "%s: panic reached the caller: %s", what, pn)
			return
		}
		if err == nil {
			e.violate("C14.noerror", "%s: the run succeeded although the fault was injected", what)
			return
		}
		if wantIs != nil && !errors.Is(err, wantIs) {
			e.violate("C14.identity", "%s: the returned error %q is not recognisable as %q through errors.Is", what, err.Error(), wantIs.Error())
		}
		locs, ok := parseTrace(err.Error())
		if !ok || len(locs) == 0 {
			e.violate("C14.format", "%s: no location in error text %q", what, err.Error())
			return
		}
		mk := m.Markers[siteID]
		want := append([]c14loc{{file: mk.File, line: mk.Line}}, c14Chain(&m, mk.Fn, d)...)
		if mk.Inline {
			// one more active call: the helper literal, called on the marker's own line
			want = append([]c14loc{{file: mk.File, line: mk.Line}}, want...)
		}
		inStmt := locs[0].file == want[0].file && locs[0].line == want[0].line
		if mk.Last > 0 && locs[0].file == mk.File && locs[0].line >= mk.First && locs[0].line <= mk.Last {
			inStmt = true // multi-line statement: any of its lines lies within it
			want[0].line = locs[0].line
		}
		if !inStmt {
			e.violate("C14.location", "%s: reported location %s, the failing statement is at %s (line %q)", what, locs[0], want[0], srcLine(&m, want[0]))
			return
		}
		if ls := m.Files[locs[0].file]; locs[0].line <= len(ls) && (locs[0].col < 1 || locs[0].col > len(ls[locs[0].line-1])+1) {
			e.violate("C14.location", "%s: column %d is outside line %q", what, locs[0].col, ls[locs[0].line-1])
		}
		if len(locs) != len(want) {
			e.violate("C14.trace", "%s: trace has %d entries %v, the active call chain is %v", what, len(locs), locs, want)
			return
		}
		for i := range want {
			if locs[i].file != want[i].file || locs[i].line != want[i].line {
				e.violate("C14.trace", "%s: trace entry %d is %s, expected %s (trace %v, expected %v)", what, i, locs[i], want[i], locs, want)
				return
			}
		}
	}
	// fail the k-th marker call, for every k (sampled above 300)
	ks := make([]int, 0, n)
	for k := 1; k <= n; k++ {
		if n <= 300 || k <= 64 || k > n-64 || k%((n/128)+1) == 0 {
			ks = append(ks, k)
		}
	}
	for _, k := range ks {
		e.SoloMarkers(k, 0)
		e.SoloErrKind(k + int(p.Seed%5))
		err, pn := c14Run(e, c)
		res.Evals++
		e.fired("hostCallFailed")
		rec := log[k-1]
		check(fmt.Sprintf("failing host call #%d (marker %d)", k, rec.Arg), err, pn, int(rec.Arg), int(rec.Arg2), ErrInjected)
		if len(e.pending)+len(e.Violations) > 3 {
			break
		}
	}
	// planted sentinel faults
	for _, pl := range m.Planted {
		var wantIs error
		oldS, oldB := tengo.MaxStringLen, tengo.MaxBytesLen
		switch pl.Kind {
		case "oob", "oobSel":
			wantIs = tengo.ErrIndexOutOfBounds
		case "strlimit", "strlimitFmt":
			wantIs = tengo.ErrStringLimit
			tengo.MaxStringLen = 26
		case "strlimitConv":
			// the bytes value (27+) is fine, its conversion to a string is not
			wantIs = tengo.ErrStringLimit
			tengo.MaxStringLen = 26
		case "byteslimit":
			wantIs = tengo.ErrBytesLimit
			tengo.MaxBytesLen = 26
		case "byteslimitConv":
			// the string (27+) is fine, its conversion to bytes is not
			wantIs = tengo.ErrBytesLimit
			tengo.MaxBytesLen = 26
		}
		e.SoloMarkers(0, int64(pl.ID))
		err, pn := c14Run(e, c)
		tengo.MaxStringLen, tengo.MaxBytesLen = oldS, oldB
		res.Evals++
		lg := e.SoloLog()
		if len(lg) == 0 || int(lg[len(lg)-1].Arg) != pl.ID {
			if err == nil {
				e.probe("plantedSiteNotReached")
				continue
			}
			e.violate("C14.planted", "planted %s site %d: run failed with %v before the site was reached", pl.Kind, pl.ID, err)
			continue
		}
		e.fired("planted:" + pl.Kind)
		check(fmt.Sprintf("planted %s at marker %d", pl.Kind, pl.ID), err, pn, pl.ID, int(lg[len(lg)-1].Arg2), wantIs)
	}
	// frame-limit ladder
	if m.RecFn != "" {
		e.SoloMarkers(0, -1)
		err, pn := c14Run(e, c)
		res.Evals++
		e.fired("frameLimit")
		f := m.Funcs[m.RecFn]
		switch {
		case pn != "":
			e.violate("C14.panic", "frame-limit ladder: panic reached the caller: %s", pn)
		case err == nil:
			e.violate("C14.noerror", "frame-limit ladder: recursion of depth 100000 succeeded")
		default:
			if !errors.Is(err, tengo.ErrStackOverflow) {
				e.violate("C14.identity", "frame-limit ladder: error %q is not recognisable as the stack-overflow error", errClass(err.Error()))
			}
			locs, ok := parseTrace(err.Error())
			if !ok {
				e.violate("C14.format", "frame-limit ladder: no location in error text")
				break
			}
			i := 0
			for i < len(locs) && locs[i].file == f.File && locs[i].line == f.RecLine {
				i++
			}
			rest := append([]c14loc{{file: f.CallFile, line: f.CallLine}}, c14Chain(&m, f.Parent, 0)...)
			if i < 100 {
				e.violate("C14.trace", "frame-limit ladder: only %d leading trace entries are at the recursive call site %s:%d (trace starts %v)", i, f.File, f.RecLine, head(locs, 4))
			} else if len(locs)-i != len(rest) {
				e.violate("C14.trace", "frame-limit ladder: after the recursive entries the trace continues with %v, expected %v", locs[i:], rest)
			} else {
				for j := range rest {
					if locs[i+j].file != rest[j].file || locs[i+j].line != rest[j].line {
						e.violate("C14.trace", "frame-limit ladder: outer trace is %v, expected %v", locs[i:], rest)
						break
					}
				}
			}
		}
	}
	// allocation-budget sweep: failing statement unknown, structural check only
	c14Budget(e, res, &m)
}

func head(l []c14loc, n int) []c14loc {
	if len(l) > n {
		return l[:n]
	}
	return l
}

func srcLine(m *gen.C14Meta, l c14loc) string {
	if ls := m.Files[l.file]; l.line >= 1 && l.line <= len(ls) {
		return strings.TrimSpace(ls[l.line-1])
	}
	return "?"
}

// c14Budget fails the N-th allocation for N = 0..: the error must be the
// allocation-limit error and its trace must be a connected path of the static
// call relation from the reported statement up to the main file.
func c14Budget(e *Engine, res *EpisodeResult, m *gen.C14Meta) {
	p := e.Plan
	var prev *c14loc
	inLadder := func(l c14loc) int {
		for i, ld := range m.Ladders {
			if l.file == ld.File && l.line >= ld.First && l.line < ld.First+ld.Count {
				return i + 1
			}
		}
		return 0
	}
	for n := int64(0); n < 120; n++ {
		sp := p.Scripts[0]
		sp.HasLimit, sp.MaxAllocs = true, n
		s, err := e.BuildScript(&sp)
		if err != nil {
			return
		}
		c, err := s.Compile()
		if err != nil {
			return
		}
		e.SoloMarkers(0, 0)
		err, pn := c14Run(e, c)
		res.Evals++
		if pn != "" {
			e.violate("C14.panic", "allocation budget %d: panic reached the caller: %s", n, pn)
			return
		}
		if err == nil {
			return
		}
		e.fired("allocBudgetExhausted")
		if !errors.Is(err, tengo.ErrObjectAllocLimit) {
			e.violate("C14.identity", "allocation budget %d: error %q is not recognisable as the allocation-limit error", n, errClass(err.Error()))
			return
		}
		locs, ok := parseTrace(err.Error())
		if !ok || len(locs) == 0 {
			e.violate("C14.format", "allocation budget %d: no location in error text %q", n, err.Error())
			return
		}
		fn, ok := m.LineFn[locs[0].file][locs[0].line]
		if !ok {
			e.violate("C14.location", "allocation budget %d: reported location %s is not a statement line of that file", n, locs[0])
			return
		}
		// allocation ladders: one allocation per line, so one more unit of budget
		// moves the failure exactly one line down
		if prev != nil && inLadder(*prev) != 0 && inLadder(*prev) == inLadder(locs[0]) {
			e.probe("ladderStep")
			if locs[0].line != prev.line+1 {
				e.violate("C14.location", "allocation budget %d fails at %s (%q) and budget %d at %s (%q): in a ladder of single-allocation statements the failing statement must move down by exactly one line",
					n-1, *prev, srcLine(m, *prev), n, locs[0], srcLine(m, locs[0]))
				return
			}
		}
		l0 := locs[0]
		prev = &l0
		for i := 1; i < len(locs); i++ {
			if locs[i].file == locs[i-1].file && locs[i].line == locs[i-1].line && inlineLine(m, locs[i]) {
				continue // the frame of a helper literal written and called on this line
			}
			f, ok := m.Funcs[fn]
			if !ok {
				e.violate("C14.trace", "allocation budget %d: trace %v continues below the main file", n, locs)
				return
			}
			switch {
			case f.RecLine > 0 && locs[i].file == f.File && locs[i].line == f.RecLine:
				// another activation of the same recursive function
			case locs[i].file == f.CallFile && locs[i].line == f.CallLine:
				fn = f.Parent
			default:
				e.violate("C14.trace", "allocation budget %d: trace entry %d (%s) is not a call site of %s, whose frame it should belong to (trace %v)", n, i, locs[i], fn, locs)
				return
			}
		}
		if _, more := m.Funcs[fn]; more {
			e.violate("C14.trace", "allocation budget %d: trace %v ends inside %s, the calls above it are missing", n, locs, fn)
			return
		}
	}
}

func inlineLine(m *gen.C14Meta, l c14loc) bool {
	for _, mk := range m.Markers {
		if mk.Inline && mk.File == l.file && mk.Line == l.line {
			return true
		}
	}
	return false
}
