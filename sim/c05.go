package sim

import (
	"regexp"
	"strings"

	"verif/plan"
)

func init() { runners["C05"] = runC05 }

var digitsRe = regexp.MustCompile(`[0-9]+`)

// errClass reduces an error text to a coarse class for coverage accounting.
func errClass(err string) string {
	if i := strings.Index(err, "\n"); i >= 0 {
		err = err[:i]
	}
	err = digitsRe.ReplaceAllString(err, "#")
	if len(err) > 70 {
		err = err[:70]
	}
	return err
}

func runC05(e *Engine, res *EpisodeResult) {
	p := e.Plan
	ops := p.Tasks[0]
	// after-care baseline: the same benign ops on a freshly compiled object
	iRunB := -1
	for i := range ops {
		if ops[i].Kind == plan.OpRunCtx && ops[i].Ctx == 0 {
			iRunB = i
		}
	}
	if iRunB < 3 || iRunB+1 >= len(ops) {
		res.Fatal = "C05: unexpected op layout"
		return
	}
	be, err := baselineEngine(p)
	if err != nil {
		res.Fatal = "C05 baseline: " + err.Error()
		return
	}
	baseOps := append([]plan.Op{{Kind: plan.OpCompile, Script: 0, Dst: 1}}, ops[iRunB-3:iRunB+2]...)
	base := be.SoloOps(baseOps)
	if base[0].HasErr {
		res.Inconclusive = "compile error"
		res.Case = "compile error: " + errClass(base[0].Err)
		return
	}
	for i := range p.Scripts {
		s, err := e.BuildScript(&p.Scripts[i])
		if err != nil {
			res.Fatal = "C05 build: " + err.Error()
			return
		}
		e.Scripts = append(e.Scripts, s)
	}
	e.CallerPriority = true
	e.RunTasks()
	if e.Fatal != "" {
		return
	}
	got := e.Results[0]
	// oracle 3: no panic reaches the embedding program through the claimed calls
	hostileOutcome := "none"
	for _, r := range got {
		switch r.Kind {
		case plan.OpClone:
			if r.Panic != "" {
				e.probe("clonePanicked(outside the claim)")
			}
			continue
		case plan.OpCompile:
			continue
		}
		if r.Panic != "" {
			e.violate("C05.panic", "a panic reached the embedding program from %s (op %d): %s", r.Kind, r.Idx, r.Panic)
		}
		if r.Run != nil && r.Run.RunIdx == 0 {
			switch {
			case !r.HasErr:
				hostileOutcome = "ok"
			case r.ErrIs["canceled"] || r.ErrIs["deadline"]:
				hostileOutcome = "ctx"
			default:
				hostileOutcome = "err:" + errClass(r.Err)
			}
			if r.Run.InjectedPanic {
				e.probe("panicInjectedAndConverted")
			}
			if r.Run.VMPanicked {
				e.probe("vmPanicRecovered")
			}
		}
	}
	res.Case = p.Notes["idioms"] + "|" + p.Notes["ctx"] + "|" + hostileOutcome
	res.Nontrivial = hostileOutcome != "ok" && hostileOutcome != "none"
	// oracle 2: the call returns
	if e.CapHit {
		pending := false
		for _, r := range e.runs {
			if r.Cancelled && !r.Returned {
				pending = true
				e.violate("C05.returns", "hostile run cancelled at decision %d had not returned when the step cap was reached", r.CancelDecision)
			}
		}
		if !pending && len(e.Violations) == 0 {
			res.Inconclusive = "step cap reached"
		}
		return
	}
	if len(got) < len(ops) {
		if len(e.Violations) == 0 {
			res.Inconclusive = "not all ops completed"
		}
		return
	}
	// oracle 4: after-care equals a fresh object
	rb, gb := got[iRunB], got[iRunB+1]
	wb, wg := base[len(base)-2], base[len(base)-1]
	if rb.Outcome() != wb.Outcome() {
		e.violate("C05.usable", "benign re-run on the same object returned %s; a freshly compiled object returns %s", rb.Outcome(), wb.Outcome())
	} else if gb.Outcome() != wg.Outcome() {
		e.violate("C05.usable", "after the benign re-run Get(out) is %s; a freshly compiled object gives %s", gb.Outcome(), wg.Outcome())
	}
	for _, ri := range e.runs {
		if ri.StepsAfterReturn > 0 {
			e.violate("C05.leftover", "the VM of run %d executed %d instructions after its call had returned", ri.RunIdx, ri.StepsAfterReturn)
		}
		if ri.Cancelled && ri.StepsAfterCancelFair > PromptBound {
			e.violate("C05.returns", "%d VM instructions after cancellation before the call returned", ri.StepsAfterCancelFair)
		}
	}
}
