package sim

import (
	"errors"
	"fmt"
	"strconv"
	"time"

	"github.com/d5/tengo/v2"
	"github.com/d5/tengo/v2/stdlib"

	"verif/plan"
)

// ErrInjected is the error returned by a host function when the plan says so.
var ErrInjected = errors.New("injected host failure")

const (
	hbDefault = iota
	hbErr
	hbPanic
	hbNil
)

type hostBehaviour struct {
	kind      int
	panicKind string
	blockNs   int64
	errKind   int // shape of the error returned for hbErr (see injectedErr)
}

// injectedErr: the host function's failure. Whatever else is in its chain, it
// is (errors.Is) ErrInjected: a host error may wrap anything, including the
// engine's own argument errors.
func injectedErr(kind int) error {
	switch kind % 5 {
	case 1:
		return fmt.Errorf("host wrapper: %w", ErrInjected)
	case 2:
		return errors.Join(ErrInjected, tengo.ErrWrongNumArguments)
	case 3:
		return &hostArgError{cause: tengo.ErrInvalidArgumentType{Name: "first", Expected: "int", Found: "string"}}
	case 4:
		return fmt.Errorf("lookup failed: %w (%w)", tengo.ErrWrongNumArguments, ErrInjected)
	}
	return ErrInjected
}

type hostArgError struct{ cause error }

func (h *hostArgError) Error() string   { return "host argument check: " + h.cause.Error() }
func (h *hostArgError) Unwrap() []error { return []error{ErrInjected, h.cause} }

// soloEnv drives host functions while no simulated threads exist (set-up,
// baselines, single-threaded sweeps): a plain counter, no messages.
type soloEnv struct {
	Calls     int // host calls so far in the current solo run
	FailAt    int // 1-based call index that misbehaves (0 = none)
	FailHow   int // hbErr / hbPanic / hbNil
	PanicKind string
	Log       []HostCallRec
	Record    bool
	Only      string // if set, only calls of the function with this name are counted, logged and faulted
	Boom      int64  // value returned by the "boom" host function (switches planted failure sites on)
	ErrKind   int    // see injectedErr
}

// HostCallRec is one host call observed in solo mode.
type HostCallRec struct {
	Name string
	Arg  int64 // first argument if it is an int (marker id), else -1
	Arg2 int64 // second argument if it is an int (depth counter), else -1
}

func (s *soloEnv) next(name string, args []tengo.Object) hostBehaviour {
	if s.Only != "" && name != s.Only {
		return hostBehaviour{}
	}
	s.Calls++
	if s.Record {
		rec := HostCallRec{Name: name, Arg: -1, Arg2: -1}
		if len(args) > 0 {
			if i, ok := args[0].(*tengo.Int); ok {
				rec.Arg = i.Value
			}
		}
		if len(args) > 1 {
			if i, ok := args[1].(*tengo.Int); ok {
				rec.Arg2 = i.Value
			}
		}
		s.Log = append(s.Log, rec)
	}
	if s.FailAt > 0 && s.Calls == s.FailAt {
		return hostBehaviour{kind: s.FailHow, panicKind: s.PanicKind, errKind: s.ErrKind}
	}
	return hostBehaviour{}
}

// SoloReset prepares the solo host environment for one run.
func (e *Engine) SoloReset(failAt, how int, panicKind string, record bool) {
	e.solo = soloEnv{FailAt: failAt, FailHow: how, PanicKind: panicKind, Record: record}
}

// SoloMarkers: count, log and fault only the marker calls; boom selects a planted site.
func (e *Engine) SoloMarkers(failAt int, boom int64) {
	e.solo = soloEnv{FailAt: failAt, FailHow: hbErr, Record: true, Only: "mk.mark", Boom: boom}
}

func (e *Engine) SoloErrKind(k int)      { e.solo.ErrKind = k }
func (e *Engine) SoloLog() []HostCallRec { return e.solo.Log }
func (e *Engine) SoloCalls() int         { return e.solo.Calls }

// HostFunc builds a simulator-owned host function. Its result is a pure
// function of its arguments unless the plan injects a fault at this call.
func (e *Engine) HostFunc(flavour, name string) tengo.CallableFunc {
	return func(args ...tengo.Object) (tengo.Object, error) {
		var hb hostBehaviour
		if e.active.Load() {
			a := arrival{gid: curGID(), site: SiteHostCall, task: -1, name: name}
			r := e.park(&a)
			if r.action == actUnwind {
				panic(unwindSentinel{})
			}
			hb = r.host
		} else {
			hb = e.solo.next(name, args)
		}
		if flavour == "boom" {
			return &tengo.Int{Value: e.solo.Boom}, nil
		}
		switch hb.kind {
		case hbErr:
			return nil, injectedErr(hb.errKind)
		case hbPanic:
			panic(panicValue(hb.panicKind))
		case hbNil:
			return nil, nil
		}
		return defaultHost(flavour, args)
	}
}

func defaultHost(flavour string, args []tengo.Object) (tengo.Object, error) {
	switch flavour {
	case "id":
		if len(args) == 0 {
			return tengo.UndefinedValue, nil
		}
		return args[0], nil
	case "tick":
		return tengo.UndefinedValue, nil
	case "sum":
		var s int64
		for _, a := range args {
			if i, ok := a.(*tengo.Int); ok {
				s += i.Value
			}
		}
		return &tengo.Int{Value: s}, nil
	case "mkarr":
		return &tengo.Array{Value: append([]tengo.Object{}, args...)}, nil
	case "true":
		return tengo.TrueValue, nil
	}
	return tengo.UndefinedValue, nil
}

// panicValue builds the value an injected panic carries. Only kinds that tengo
// code or the Go runtime can raise on the VM goroutine are used (DESIGN 5.2).
func panicValue(kind string) interface{} {
	switch kind {
	case "runtimeError":
		return provoke(func() { var a []int; _ = a[len(a)+5] })
	case "nilDeref":
		return provoke(func() { var p *tengo.Int; _ = p.Value })
	case "string":
		return "injected internal fault (string)"
	case "fmtString":
		return "injected %d %s fault" // goes through fmt.Errorf(e) in the recover branch
	case "customError":
		return &customErr{code: 7}
	case "wrappedError":
		return fmt.Errorf("wrapped: %w", errors.New("injected internal fault"))
	}
	return errors.New("injected internal fault")
}

func provoke(f func()) (r interface{}) {
	defer func() { r = recover() }()
	f()
	return nil
}

// hostBehaviourFor is the controller-side lookup for the k-th host call of a run.
func (e *Engine) hostBehaviourFor(t *thread, r *RunInfo, a *arrival) hostBehaviour {
	if r == nil {
		return hostBehaviour{}
	}
	for i := range e.Plan.Faults {
		f := &e.Plan.Faults[i]
		if f.Task != r.Task || f.Run != r.RunIdx || f.Call != r.hostCallIdx {
			continue
		}
		switch f.Kind {
		case plan.FaultHostErr:
			e.fired(f.Kind)
			return hostBehaviour{kind: hbErr}
		case plan.FaultHostPanic:
			e.fired(f.Kind + ":" + f.Val)
			return hostBehaviour{kind: hbPanic, panicKind: f.Val}
		case plan.FaultHostNil:
			e.fired(f.Kind)
			return hostBehaviour{kind: hbNil}
		case plan.FaultHostBlock:
			return hostBehaviour{blockNs: f.DNs}
		}
	}
	return hostBehaviour{}
}

// HostModule returns the attribute table of a simulator-provided builtin module.
func (e *Engine) HostModule(flavour string) map[string]tengo.Object {
	switch flavour {
	case "marker":
		return map[string]tengo.Object{
			"mark": &tengo.UserFunction{Name: "mark", Value: e.HostFunc("id", "mk.mark")},
			"boom": &tengo.UserFunction{Name: "boom", Value: e.HostFunc("boom", "mk.boom")},
		}
	case "simmod2":
		return map[string]tengo.Object{
			"k":    &tengo.Int{Value: 8},
			"s":    &tengo.String{Value: "sîmmod-two"},
			"f":    &tengo.Float{Value: 2.5},
			"id":   &tengo.UserFunction{Name: "id", Value: e.HostFunc("id", "simmod.id")},
			"tick": &tengo.UserFunction{Name: "tick", Value: e.HostFunc("tick", "simmod.tick")},
			"tbl":  &tengo.ImmutableArray{Value: []tengo.Object{&tengo.Int{Value: 10}, &tengo.Int{Value: 20}, &tengo.Int{Value: 30}}},
		}
	}
	return map[string]tengo.Object{
		"by":   &tengo.Bytes{Value: []byte("bytes-in-module")},
		"b5":   &tengo.Bytes{Value: []byte("abcde")}, // its copies get spare capacity from append
		"tm":   &tengo.Time{Value: time.Unix(86400, 0).UTC()},
		"er":   &tengo.Error{Value: &tengo.String{Value: "module error value"}},
		"mp":   &tengo.ImmutableMap{Value: map[string]tengo.Object{"a": &tengo.Int{Value: 1}, "l": &tengo.Array{Value: []tengo.Object{&tengo.Int{Value: 5}, &tengo.Int{Value: 6}}}}},
		"ch":   &tengo.Char{Value: 'ç'},
		"k":    &tengo.Int{Value: 7},
		"s":    &tengo.String{Value: "sîmmod-ône"},
		"f":    &tengo.Float{Value: 1.5},
		"id":   &tengo.UserFunction{Name: "id", Value: e.HostFunc("id", "simmod.id")},
		"tick": &tengo.UserFunction{Name: "tick", Value: e.HostFunc("tick", "simmod.tick")},
		"tbl":  &tengo.ImmutableArray{Value: []tengo.Object{&tengo.Int{Value: 1}, &tengo.Int{Value: 2}, &tengo.Int{Value: 3}}},
	}
}

// BuildScript makes a fresh tengo.Script (fresh input values, fresh module
// map) from a plan script.
func (e *Engine) BuildScript(spec *plan.Script) (*tengo.Script, error) {
	s := tengo.NewScript([]byte(spec.Src))
	for _, in := range spec.Inputs {
		var err error
		if in.Host != "" {
			err = s.Add(in.Name, &tengo.UserFunction{Name: in.Name, Value: e.HostFunc(in.Host, in.Name)})
		} else {
			err = s.Add(in.Name, ToGo(in.Val))
		}
		if err != nil {
			return nil, fmt.Errorf("add %s: %w", in.Name, err)
		}
	}
	mm := tengo.NewModuleMap()
	for _, name := range spec.Modules {
		for i := range e.Plan.Modules {
			m := &e.Plan.Modules[i]
			if m.Name != name {
				continue
			}
			switch {
			case m.Src != "":
				mm.AddSourceModule(name, []byte(m.Src))
			case m.Host != "":
				mm.AddBuiltinModule(name, e.HostModule(m.Host))
			case m.Std:
				if bm := stdlib.BuiltinModules[name]; bm != nil {
					mm.AddBuiltinModule(name, bm)
				} else if sm := stdlib.SourceModules[name]; sm != "" {
					mm.AddSourceModule(name, []byte(sm))
				}
			}
		}
	}
	s.SetImports(mm)
	if spec.HasLimit {
		s.SetMaxAllocs(spec.MaxAllocs)
	}
	return s, nil
}

type customErr struct{ code int }

func (c *customErr) Error() string { return "custom error " + fmt.Sprint(c.code) }

// hostStringer is a host-provided object type whose String method itself uses
// tengo's formatter (a format call nested inside a format call). In episodes
// with Cfg.PoolShare the method is also a scheduling point: another simulated
// thread may run whole builtin calls while this one is in the middle of one.
type hostStringer struct {
	tengo.ObjectImpl
	n int64
}

func (h *hostStringer) TypeName() string { return "stringer" }
func (h *hostStringer) String() string {
	yieldInside("stringer.String:enter")
	if h.n%2 == 0 {
		s := "<" + strconv.FormatInt(h.n, 10) + "|plain>"
		yieldInside("stringer.String:leave")
		return s
	}
	s, err := tengo.Format("<%d|%s|%5.1f>", &tengo.Int{Value: h.n}, &tengo.String{Value: "in"}, &tengo.Float{Value: 2.5})
	yieldInside("stringer.String:leave")
	if err != nil {
		return "!" + err.Error()
	}
	return s
}
func (h *hostStringer) Copy() tengo.Object { return &hostStringer{n: h.n} }

// yieldInside parks the calling simulated thread at a Yield site when the
// running episode asks for it; a no-op anywhere else (solo runs, other episodes).
func yieldInside(name string) {
	e := cur.Load()
	if e == nil || !e.Plan.Cfg.PoolShare || !e.active.Load() {
		return
	}
	a := arrival{gid: curGID(), site: SiteYield, task: -1, name: name}
	if r := e.park(&a); r.action == actUnwind {
		panic(unwindSentinel{})
	}
}
