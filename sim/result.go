package sim

import (
	"fmt"
	"os"
	"runtime"
	"runtime/debug"
	"sort"
	"strings"
	"testing"
	"testing/synctest"

	"github.com/d5/tengo/v2"

	"verif/plan"
)

// Finding is something an oracle saw that is matched against
// known_findings.json by the orchestrator (race identities, crash signatures).
type Finding struct {
	Kind      string `json:"kind"`
	Signature string `json:"signature"`
	Detail    string `json:"detail,omitempty"`
}

// EpisodeResult is what a worker reports for one episode.
type EpisodeResult struct {
	ID           int         `json:"id"`
	Prop         string      `json:"prop"`
	Seed         uint64      `json:"seed"`
	Shape        string      `json:"shape"`
	Digest       string      `json:"digest"`
	Violations   []Violation `json:"violations,omitempty"`
	Findings     []Finding   `json:"findings,omitempty"`
	Stats        Stats       `json:"stats"`
	Inconclusive string      `json:"inconclusive,omitempty"`
	Fatal        string      `json:"fatal,omitempty"`
	Case         string      `json:"case,omitempty"` // key of the distinct case this episode exercised
	Nontrivial   bool        `json:"nontrivial,omitempty"`
	Evals        int         `json:"evals,omitempty"` // executions performed inside the episode (sweeps)
	Trace        []string    `json:"trace,omitempty"`
	Recycle      bool        `json:"recycle,omitempty"` // the worker must be replaced (the race detector reports each race once per process)
	RaceText     string      `json:"raceText,omitempty"`
}

// runners maps a property to its episode logic (workload execution + oracle).
var runners = map[string]func(e *Engine, res *EpisodeResult){}

// RunPlan executes one plan inside a fresh synctest bubble.
func RunPlan(t *testing.T, p *plan.Plan, trace bool, emitEarly func(*EpisodeResult)) (res *EpisodeResult) {
	res = &EpisodeResult{Prop: p.Prop, Seed: p.Seed, Shape: p.Shape}
	run, ok := runners[p.Prop]
	if !ok {
		res.Fatal = "no runner for property " + p.Prop
		return
	}
	// slot numbering of script variables: sorted, then permuted by the episode seed
	tengo.VerifOrder = func(names []string) []string {
		sort.Strings(names)
		r := plan.NewRng(p.Seed ^ 0x51ed270b)
		for i := len(names) - 1; i > 0; i-- {
			j := r.Intn(i + 1)
			names[i], names[j] = names[j], names[i]
		}
		return names
	}
	oldS, oldB := tengo.MaxStringLen, tengo.MaxBytesLen
	if p.Cfg.MaxStringLen > 0 {
		tengo.MaxStringLen = p.Cfg.MaxStringLen
	}
	if p.Cfg.MaxBytesLen > 0 {
		tengo.MaxBytesLen = p.Cfg.MaxBytesLen
	}
	if p.Cfg.NoGC && !p.Cfg.PoolShare {
		oldGC := debug.SetGCPercent(-1)
		defer debug.SetGCPercent(oldGC)
	}
	if p.Cfg.PoolShare {
		// what a sync.Pool hands out must be a function of the episode alone: one P
		// (no per-P caches to miss), no collection (no pool clearing) while it runs
		oldP, oldGC := runtime.GOMAXPROCS(1), debug.SetGCPercent(-1)
		defer func() { runtime.GOMAXPROCS(oldP); debug.SetGCPercent(oldGC) }()
	}
	defer func() {
		tengo.MaxStringLen, tengo.MaxBytesLen = oldS, oldB
		if r := recover(); r != nil {
			msg := fmt.Sprint(r)
			if len(res.Violations) == 0 && res.Fatal == "" {
				res.Fatal = "simulator panic: " + msg + "\n" + string(debug.Stack())
			}
		}
	}()
	synctest.Test(t, func(t *testing.T) {
		e := NewEngine(p)
		e.KeepTrace(trace)
		defer func() {
			if r := recover(); r != nil {
				res.Fatal = fmt.Sprintf("simulator panic inside bubble: %v\n%s", r, debug.Stack())
			}
			res.Digest = e.Digest()
			res.Violations = append(res.Violations, e.Violations...)
			res.Stats = e.Stats
			if e.Fatal != "" && res.Fatal == "" {
				res.Fatal = e.Fatal
			}
			if e.Stuck() {
				res.Recycle = true // goroutines of this bubble can never end
			}
			if trace {
				res.Trace = e.Trace()
			}
			// A race report makes the testing package fail the bubble's test and
			// end this process as soon as the bubble function returns, so the
			// result has to leave from in here.
			raced := RaceBuild && collectRaces(p, res)
			// in the episodes built to show what memory shared between two compiled
			// objects leads to (fragment keptClosure), that sharing explains whatever
			// else is seen (differing results, races on that memory): the cause is
			// reported alone there; everywhere else every oracle stands
			var shared, others []Violation
			for _, v := range res.Violations {
				if strings.Contains(v.Oracle, ".shared:") {
					shared = append(shared, v)
				} else {
					others = append(others, v)
				}
			}
			if len(shared) > 0 {
				if strings.Contains(p.Notes["frags"], "keptClosure") && os.Getenv("VERIF_NOFILTER") == "" {
					res.Violations = shared
				} else {
					res.Violations = append(others, shared...) // the episode's class is the first entry
				}
			}
			if raced && emitEarly != nil {
				emitEarly(res)
			}
		}()
		run(e, res)
	})
	return
}

// collectRaces turns new race reports into violations (both accesses in tengo)
// or into a simulator fault (anything else). Reports whether there were any.
func collectRaces(p *plan.Plan, res *EpisodeResult) bool {
	any := false
	{
		for _, rr := range newRaceReports() {
			any = true
			res.Recycle = true
			if res.RaceText == "" {
				res.RaceText = rr.Text
			}
			if rr.Tengo {
				res.Violations = append(res.Violations, Violation{Oracle: p.Prop + ".race:" + rr.Identity,
					Detail: "unsynchronised conflicting accesses by two simulated threads: " + rr.Identity})
			} else if res.Fatal == "" {
				res.Fatal = "race report outside tengo (simulator defect): " + rr.Identity + "\n" + rr.Text
			}
		}
	}
	return any
}
