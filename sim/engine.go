// Package sim is the deterministic simulator: it runs the real tengo code
// (built with the "verif" hooks) on real goroutines, but releases exactly one
// simulated thread at a time, at instrumented sites, following a schedule tape
// and a fault plan derived from one seed.
package sim

import (
	"context"
	"crypto/sha256"
	"encoding/hex"
	"fmt"
	"hash"
	"runtime"
	"sort"
	"strconv"
	"sync/atomic"
	"testing/synctest"
	"time"

	"github.com/d5/tengo/v2"

	"verif/plan"
)

// Engine pseudo-sites (tengo's own sites are tengo.Verif*, 1..13).
const (
	SiteTaskStart = 100 + iota // task goroutine exists, waits for its first op
	SiteOpBegin                // about to issue an API call (invoke event)
	SiteOpEnd                  // API call returned (return event; carries the result)
	SiteCtxMade                // a context was created by the task (carries cancel func)
	SiteHostCall               // a simulator host function was invoked by the script
	SiteTaskDone               // task has no more ops
	SiteYield                  // a host object's method lets the scheduler in (inside a builtin call)
)

func SiteName(s int) string {
	switch s {
	case tengo.VerifVMRunEnter:
		return "VMRunEnter"
	case tengo.VerifVMStep:
		return "VMStep"
	case tengo.VerifVMRunExit:
		return "VMRunExit"
	case tengo.VerifRunCtxEnter:
		return "RunCtxEnter"
	case tengo.VerifVMGoStart:
		return "VMGoStart"
	case tengo.VerifVMGoEnd:
		return "VMGoEnd"
	case tengo.VerifVMGoPanic:
		return "VMGoPanic"
	case tengo.VerifRunCtxSpawned:
		return "RunCtxSpawned"
	case tengo.VerifRunCtxCancelSeen:
		return "RunCtxCancelSeen"
	case tengo.VerifRunCtxAborted:
		return "RunCtxAborted"
	case tengo.VerifRunCtxReturn:
		return "RunCtxReturn"
	case tengo.VerifLockR:
		return "LockR"
	case tengo.VerifLockW:
		return "LockW"
	case SiteTaskStart:
		return "TaskStart"
	case SiteOpBegin:
		return "OpBegin"
	case SiteOpEnd:
		return "OpEnd"
	case SiteCtxMade:
		return "CtxMade"
	case SiteHostCall:
		return "HostCall"
	case SiteTaskDone:
		return "TaskDone"
	case SiteYield:
		return "Yield"
	}
	return "site" + strconv.Itoa(s)
}

const (
	actProceed = iota
	actPanic   // hook panics with reply.panicVal (fault injection)
	actUnwind  // hook panics with the private sentinel (teardown)
	actStop    // task: issue no further ops
	actReprobe // lock site: probe the lock again and park again
)

type unwindSentinel struct{}

func (unwindSentinel) Error() string { return "verif: episode unwound" }

// arrival is the one message type from simulated threads to the controller.
// It is sent by value; the controller never dereferences c or v.
type arrival struct {
	gid      uint64
	site     int
	c        *tengo.Compiled
	v        *tengo.VM
	task     int
	opIdx    int
	ip       int
	sp       int
	frames   int
	op       byte
	name     string // host function name (allocated by the controller at script build time)
	ctxIdx   int
	cancel   context.CancelFunc
	now      time.Duration
	lockFree bool // lock sites: result of the TryLock probe made by the arriving thread itself
	reply    chan reply
}

type reply struct {
	action   int
	panicVal interface{}
	host     hostBehaviour
	stamp    int
}

const (
	kTask = iota
	kVM
	kAnon
)

type thread struct {
	id     int
	name   string
	kind   int
	gid    uint64
	task   int
	parent *thread
	run    *RunInfo // kVM: the run it executes; kTask: the run in progress
	at     *arrival // non-nil while parked
	done   bool
	curOp  int
	doneCh chan struct{}
	// host call in progress: behaviour decided at arrival, thread held until wakeAt
	wakeAt    time.Duration
	hostRep   hostBehaviour
	lockStamp int  // decision at which the current op passed its first lock site
	lockFree  bool // lock site: last probe result
	stale     bool // lock site: some lock may have changed hands since the probe
	// stall
	stallLeft int
	stalled   bool
}

// RunInfo records what the controller observed about one Run/RunContext call.
type RunInfo struct {
	Task, OpIdx, RunIdx  int
	CtxIdx               int // index into plan.Ctxs, -1 = background
	Steps                int // VM instructions released
	HostCalls            int
	Cancelled            bool
	CancelDecision       int
	CancelAtSteps        int
	CancelWhere          string // what the threads were doing when cancellation took effect
	StepsAfterCancelFair int    // VM steps after cancellation while the caller was not being stalled
	VMSpawned            bool
	VMExited             bool
	VMPanicked           bool
	ChFilled             bool // VM thread released past VMRunExit (its result is in the channel)
	CallerPastSelect     bool
	SawCancelBranch      bool
	Returned             bool
	StepsAfterReturn     int
	HostBlockedAtCancel  bool
	InjectedPanic        bool
	vm                   *tengo.VM
	vmThread             *thread
	caller               *thread
	ctx                  *ctxState
	hostCallIdx          int
}

type ctxState struct {
	idx       int
	spec      plan.CtxSpec
	cancel    context.CancelFunc
	deadline  time.Duration // for timeouts: absolute simulated time
	hasDL     bool
	cancelled bool
	fired     bool // controller-side cancel already issued
	pending   bool // trigger met but deferred (both-ready avoidance)
	run       *RunInfo
}

// Violation is an oracle failure.
type Violation struct {
	Oracle string `json:"oracle"`
	Detail string `json:"detail"`
}

// Stats are the per-episode counters that end up in the evidence file.
type Stats struct {
	Decisions int            `json:"decisions"`
	Switches  int            `json:"switches"`
	VMSteps   int            `json:"vmSteps"`
	SimNs     int64          `json:"simNs"`
	Fired     map[string]int `json:"fired,omitempty"`  // fault kinds that actually fired
	Probes    map[string]int `json:"probes,omitempty"` // rare-condition probes
	SwitchSig uint64         `json:"switchSig"`        // hash of (thread,site) at context switches
	StateSigs []uint64       `json:"stateSigs,omitempty"`
	Threads   int            `json:"threads"`
}

type Engine struct {
	Plan    *plan.Plan
	Objs    []*tengo.Compiled
	Scripts []*tengo.Script

	active atomic.Bool
	arrive chan arrival

	threads  []*thread
	byGid    map[uint64]*thread
	byVM     map[*tengo.VM]*thread
	tasks    []*thread
	ctxs     []*ctxState // in creation order (deterministic)
	runs     []*RunInfo
	runCount []int // per task

	now         time.Duration
	decisions   int
	last        *thread
	stay        uint32
	tapePos     int
	pendingTick bool
	unwinding   bool

	Results    [][]*OpResult
	Violations []Violation
	Stats      Stats
	hash       hash.Hash
	trace      []string
	keepTrace  bool
	stateSet   map[uint64]struct{}
	switchSig  uint64
	CapHit     bool
	Fatal      string // engine problem (never a violation)

	// options set by property runners
	CallerPriority bool // after cancellation, an enabled un-stalled caller is always chosen
	maxDecisions   int

	solo    soloEnv
	preCtx  map[int]*preCtxEntry // race build: contexts created by the controller before the threads exist
	stuck   bool                 // some thread can never be joined (blocked inside tengo for good)
	pending []logEntry
	nViol   int
	late    []lateItem
	meta    map[int]opMeta
}

type preCtxEntry struct {
	ctx    context.Context
	cancel context.CancelFunc
}

type opMeta struct {
	ret, lockStamp int
	run            *RunInfo
}

type lateItem struct {
	res *OpResult
}

// cur is the engine of the episode in progress. It is written by the controller
// goroutine before any simulated thread exists and cleared after all have ended.
var cur atomic.Pointer[Engine]

func init() { tengo.VerifHook = hook }

func curGID() uint64 {
	var buf [64]byte
	n := runtime.Stack(buf[:], false)
	var id uint64
	for _, ch := range buf[10:n] { // len("goroutine ") == 10
		if ch < '0' || ch > '9' {
			break
		}
		id = id*10 + uint64(ch-'0')
	}
	return id
}

func hook(site int, c *tengo.Compiled, v *tengo.VM) {
	e := cur.Load()
	if e == nil || !e.active.Load() {
		return
	}
	a := arrival{gid: curGID(), site: site, c: c, v: v, task: -1}
	if site == tengo.VerifVMStep {
		a.ip, a.sp, a.frames, a.op = v.VerifPeek()
	}
	var r reply
	if site == tengo.VerifLockR || site == tengo.VerifLockW {
		// The thread probes the lock itself (a real, synchronising TryLock on its
		// own goroutine); the controller never touches tengo memory.
		for {
			a.lockFree = c.VerifTryLock(site == tengo.VerifLockW)
			r = e.park(&a)
			if r.action != actReprobe {
				break
			}
		}
	} else {
		r = e.park(&a)
	}
	switch r.action {
	case actPanic:
		panic(r.panicVal)
	case actUnwind:
		if site == tengo.VerifVMGoPanic {
			return // never panic inside the recover branch
		}
		panic(unwindSentinel{})
	}
}

func (e *Engine) park(a *arrival) reply {
	raceDisable()
	a.reply = make(chan reply)
	e.arrive <- *a
	r := <-a.reply
	raceEnable()
	return r
}

func NewEngine(p *plan.Plan) *Engine {
	e := &Engine{
		Plan:     p,
		Objs:     make([]*tengo.Compiled, p.Slots+1),
		byGid:    map[uint64]*thread{},
		byVM:     map[*tengo.VM]*thread{},
		hash:     sha256.New(),
		stateSet: map[uint64]struct{}{},
		meta:     map[int]opMeta{},
	}
	e.Stats.Fired = map[string]int{}
	e.Stats.Probes = map[string]int{}
	e.maxDecisions = p.Cfg.MaxDecisions
	if e.maxDecisions <= 0 {
		e.maxDecisions = 20000
	}
	e.runCount = make([]int, len(p.Tasks))
	e.Results = make([][]*OpResult, len(p.Tasks))
	return e
}

func (e *Engine) KeepTrace(b bool) { e.keepTrace = b }
func (e *Engine) Stuck() bool      { return e.stuck }
func (e *Engine) Trace() []string  { return e.trace }

// logf records an event. While simulated threads exist the controller must not
// touch fmt (its sync.Pool would hand the controller objects last used by a
// thread, with the pool's synchronisation ignored): entries are formatted when
// flushed, after the final join. Arguments must be ints or controller-owned strings.
func (e *Engine) logf(format string, args ...interface{}) {
	e.pending = append(e.pending, logEntry{format: format, args: args})
	if !e.active.Load() {
		e.flushLog()
	}
}

type logEntry struct {
	format string
	args   []interface{}
	viol   string // non-empty: also a violation of this oracle
}

func (e *Engine) flushLog() {
	for _, le := range e.pending {
		s := fmt.Sprintf(le.format, le.args...)
		if le.viol != "" {
			e.Violations = append(e.Violations, Violation{Oracle: le.viol, Detail: s})
			s = "VIOLATION " + le.viol + " " + s
		}
		e.hash.Write([]byte(s))
		e.hash.Write([]byte{'\n'})
		if e.keepTrace {
			e.trace = append(e.trace, s)
		}
	}
	e.pending = e.pending[:0]
}

// Digest of the event log so far.
func (e *Engine) Digest() string {
	e.flushLog()
	return hex.EncodeToString(e.hash.Sum(nil))[:32]
}

func (e *Engine) violate(oracle, format string, args ...interface{}) {
	e.pending = append(e.pending, logEntry{format: format, args: args, viol: oracle})
	e.nViol++
	if !e.active.Load() {
		e.flushLog()
	}
}

func (e *Engine) probe(name string) { e.Stats.Probes[name]++ }
func (e *Engine) fired(name string) { e.Stats.Fired[name]++ }

// ---------------------------------------------------------------------------
// Concurrent phase
// ---------------------------------------------------------------------------

// RunTasks executes plan.Tasks as simulated threads under the schedule tape.
// Must be called on the root goroutine of a synctest bubble.
func (e *Engine) RunTasks() {
	p := e.Plan
	if len(p.Tasks) == 0 {
		return
	}
	// goroutines started by solo-mode runs (baselines) must be gone before the
	// hooks go live, otherwise a straggler would show up as an unknown thread
	synctest.Wait()
	e.arrive = make(chan arrival)
	if RaceBuild {
		// In the race build a context must not be created by the thread that uses
		// it: the controller's helper goroutine that cancels it would then touch
		// memory written by a simulated thread without any happens-before edge
		// (the hand-offs are invisible to the detector). Created here, before the
		// threads, everything is ordered by goroutine creation.
		e.preCtx = map[int]*preCtxEntry{}
		for ti, ops := range p.Tasks {
			for oi, op := range ops {
				if op.Ctx <= 0 || op.Ctx > len(p.Ctxs) {
					continue
				}
				switch p.Ctxs[op.Ctx-1].Kind {
				case "cancel":
					ctx, cancel := context.WithCancel(context.Background())
					e.preCtx[ti<<20|oi] = &preCtxEntry{ctx, cancel}
				case "preCancelled":
					ctx, cancel := context.WithCancel(context.Background())
					cancel()
					e.preCtx[ti<<20|oi] = &preCtxEntry{ctx, cancel}
				case "childOfCancelled":
					parent, pc := context.WithCancel(context.Background())
					pc()
					ctx, cancel := context.WithCancel(parent)
					e.preCtx[ti<<20|oi] = &preCtxEntry{ctx, cancel}
				case "background":
				default:
					e.Fatal = "the race build has no fake clock: context kind " + p.Ctxs[op.Ctx-1].Kind + " is not supported"
					return
				}
			}
		}
	}
	cur.Store(e)
	e.active.Store(true)
	start := time.Now()
	g0 := runtime.NumGoroutine()
	for ti := range p.Tasks {
		t := &thread{id: len(e.threads), name: fmt.Sprintf("T%d", ti), kind: kTask, task: ti, doneCh: make(chan struct{})}
		e.threads = append(e.threads, t)
		e.tasks = append(e.tasks, t)
		go e.taskMain(ti, t.doneCh)
	}
	raceDisable()
	e.loop()
	raceEnable()
	if e.stuck {
		// no join is possible; report what the controller knows and leave the
		// bubble (the worker process is replaced afterwards)
		e.active.Store(false)
		cur.Store(nil)
		e.flushLog()
		e.Stats.Decisions = e.decisions
		e.Stats.SwitchSig = e.switchSig
		e.Stats.Threads = len(e.threads)
		return
	}
	// ordinary (synchronising) join: the controller now happens-after every thread
	for _, t := range e.tasks {
		<-t.doneCh
	}
	e.active.Store(false)
	cur.Store(nil)
	synctest.Wait()
	// the controller now happens-after every thread: take over their results
	e.flushLog()
	for ti, rs := range e.Results {
		for _, r := range rs {
			if m, ok := e.meta[ti<<20|r.Idx]; ok {
				r.Return, r.LockStamp, r.Run = m.ret, m.lockStamp, m.run
			}
			e.logf("R T%d %d %s", ti, r.Idx, r.summary())
			if r.late != nil {
				e.late = append(e.late, lateItem{res: r})
			}
		}
	}
	e.Stats.SimNs = int64(time.Since(start))
	g1 := runtime.NumGoroutine()
	for i := 0; i < 4000 && g1 != g0; i++ { // about a second of real time on an idle machine, only spent when the count is off
		// a goroutine that has returned may still be on its way out (it counts until
		// the runtime has retired it): give it real time; a leaked one stays
		runtime.Gosched()
		if i > 20 {
			nap()
		}
		synctest.Wait()
		g1 = runtime.NumGoroutine()
	}
	if g1 != g0 && e.Fatal == "" {
		e.violate("goroutines", "goroutine count %d before the episode, %d after all calls returned", g0, g1)
	}
	// late dereferences, after the join
	for _, it := range e.late {
		ResolveLate([]*OpResult{it.res})
	}
	e.Stats.Decisions = e.decisions
	e.Stats.SwitchSig = e.switchSig
	e.Stats.Threads = len(e.threads)
	sigs := make([]uint64, 0, len(e.stateSet))
	for s := range e.stateSet {
		sigs = append(sigs, s)
	}
	sort.Slice(sigs, func(i, j int) bool { return sigs[i] < sigs[j] })
	if len(sigs) > 32 {
		sigs = sigs[:32] // bottom-k sketch; the orchestrator merges these
	}
	e.Stats.StateSigs = sigs
}

func (e *Engine) taskMain(ti int, done chan struct{}) {
	// Results are owned by this goroutine until the final, synchronising close:
	// the controller never reads memory written by a simulated thread while the
	// episode runs (it would be an unsynchronised access of the simulator itself).
	var results []*OpResult
	defer func() {
		e.Results[ti] = results
		close(done) // ordinary close: the happens-before edge of the final join
	}()
	gid := curGID()
	a := arrival{gid: gid, site: SiteTaskStart, task: ti}
	if r := e.park(&a); r.action != actProceed {
		return
	}
	ops := e.Plan.Tasks[ti]
	for i := range ops {
		a := arrival{gid: gid, site: SiteOpBegin, task: ti, opIdx: i}
		r := e.park(&a)
		if r.action != actProceed {
			break
		}
		res := e.execOp(ti, i, &ops[i], gid)
		res.Invoke = r.stamp
		results = append(results, res)
		a = arrival{gid: gid, site: SiteOpEnd, task: ti, opIdx: i}
		if r := e.park(&a); r.action != actProceed {
			break
		}
		if res.unwound {
			break
		}
	}
	a = arrival{gid: gid, site: SiteTaskDone, task: ti}
	e.park(&a)
}

func (e *Engine) loop() {
	for {
		if e.pendingTick {
			e.pendingTick = false
			e.tick(time.Duration(e.Plan.Cfg.TickNs))
		}
		synctest.Wait()
		e.drain()
		if e.Fatal != "" {
			break
		}
		if e.firePlanned() {
			continue
		}
		if e.reprobe() {
			continue
		}
		evs := e.enabled()
		if len(evs) == 0 {
			if e.allDone() {
				break
			}
			if e.jumpClock() {
				continue
			}
			e.violate("deadlock", "no simulated thread can move: %s", e.describeThreads())
			break
		}
		if e.decisions >= e.maxDecisions {
			e.CapHit = true
			e.logf("CAP decisions=%d", e.decisions)
			break
		}
		t := e.choose(evs)
		e.release(t)
	}
	e.teardown()
}

func (e *Engine) markLocksStale() {
	for _, t := range e.threads {
		if !t.done && t.at != nil && (t.at.site == tengo.VerifLockR || t.at.site == tengo.VerifLockW) {
			t.stale = true
		}
	}
}

// reprobe lets every thread parked at a lock site whose probe may be out of
// date probe again. Returns true if any did (the loop then waits and drains).
func (e *Engine) reprobe() bool {
	did := false
	for _, t := range e.threads {
		if !t.done && t.at != nil && t.stale && (t.at.site == tengo.VerifLockR || t.at.site == tengo.VerifLockW) {
			a := t.at
			t.at = nil
			t.stale = false
			a.reply <- reply{action: actReprobe}
			did = true
		}
	}
	return did
}

func (e *Engine) allDone() bool {
	for _, t := range e.threads {
		if !t.done {
			return false
		}
	}
	return true
}

func (e *Engine) describeThreads() string {
	s := ""
	for _, t := range e.threads {
		st := "running/blocked"
		if t.done {
			st = "done"
		} else if t.at != nil {
			st = "parked@" + SiteName(t.at.site)
		}
		s += t.name + "=" + st + " "
	}
	return s
}

// tick advances the fake clock by d unless that would make a timeout fire for
// a caller that has not yet entered its select while the VM result is already
// pending (the runtime's coin flip is never asked, DESIGN 3.3).
func (e *Engine) tick(d time.Duration) {
	if d <= 0 {
		return
	}
	for _, cs := range e.sortedCtxs() {
		if cs.hasDL && !cs.cancelled && cs.deadline > e.now && cs.deadline <= e.now+d {
			if r := cs.run; r != nil && r.ChFilled && !r.CallerPastSelect {
				return
			}
		}
	}
	synctest.Wait()
	time.Sleep(d)
	e.now += d
	synctest.Wait()
	e.noteDeadlines("clock")
}

func (e *Engine) sortedCtxs() []*ctxState { return e.ctxs }

func (e *Engine) noteDeadlines(why string) {
	for _, cs := range e.sortedCtxs() {
		if cs.hasDL && !cs.cancelled && e.now >= cs.deadline {
			e.markCancelled(cs, why)
		}
	}
}

func (e *Engine) markCancelled(cs *ctxState, why string) {
	cs.cancelled = true
	e.logf("C ctx%d cancelled by=%s t=%d", cs.idx, why, e.now)
	if r := cs.run; r != nil && !r.Cancelled && !r.Returned {
		r.Cancelled = true
		r.CancelDecision = e.decisions
		r.CancelAtSteps = r.Steps
		r.CancelWhere = e.whereIs(r)
		e.probe("cancel:" + r.CancelWhere)
	}
}

// whereIs classifies the state of a run at the instant of cancellation.
func (e *Engine) whereIs(r *RunInfo) string {
	switch {
	case !r.VMSpawned:
		return "beforeSpawn"
	case r.vmThread != nil && r.vmThread.at != nil && r.vmThread.at.site == tengo.VerifVMGoStart:
		return "beforeVMStart"
	case r.vmThread != nil && r.vmThread.at != nil && r.vmThread.at.site == tengo.VerifVMRunEnter:
		return "atVMRunEnter"
	case r.vmThread != nil && r.vmThread.at != nil && r.vmThread.at.site == SiteHostCall:
		return "duringHostCall"
	case r.ChFilled || r.VMExited:
		return "afterVMFinished"
	case r.Steps == 0:
		return "atStep0"
	default:
		return "midRun"
	}
}

// jumpClock moves simulated time to the next instant at which something can
// happen (a blocked host call wakes, a timeout fires). Only used when no thread
// is enabled.
func (e *Engine) jumpClock() bool {
	var next time.Duration = -1
	for _, t := range e.threads {
		if !t.done && t.at != nil && t.at.site == SiteHostCall && t.wakeAt > e.now {
			if next < 0 || t.wakeAt < next {
				next = t.wakeAt
			}
		}
	}
	for _, cs := range e.sortedCtxs() {
		if cs.hasDL && !cs.cancelled && cs.deadline > e.now {
			if next < 0 || cs.deadline < next {
				next = cs.deadline
			}
		}
	}
	if next < 0 {
		return false
	}
	d := next - e.now
	e.logf("J jump %d", d)
	e.probe("clockJump")
	time.Sleep(d)
	e.now += d
	synctest.Wait()
	e.noteDeadlines("clock")
	return true
}

func (e *Engine) drain() {
	var batch []arrival
	for {
		select {
		case a := <-e.arrive:
			batch = append(batch, a)
			continue
		default:
		}
		break
	}
	if len(batch) == 0 {
		return
	}
	// resolve threads, then process in thread-id order (arrival order within a
	// batch depends on the Go scheduler and must not be observable)
	type item struct {
		t *thread
		a arrival
	}
	items := make([]item, 0, len(batch))
	// first pass: arrivals that register new VM threads must be seen before their children
	sort.SliceStable(batch, func(i, j int) bool { return batchRank(batch[i]) < batchRank(batch[j]) })
	for _, a := range batch {
		t := e.resolve(&a)
		items = append(items, item{t, a})
	}
	sort.SliceStable(items, func(i, j int) bool { return items[i].t.id < items[j].t.id })
	for i := range items {
		e.onArrive(items[i].t, &items[i].a)
	}
}

func batchRank(a arrival) int {
	if a.site == tengo.VerifRunCtxEnter || a.site == SiteTaskStart {
		return 0
	}
	return 1
}

func (e *Engine) resolve(a *arrival) *thread {
	if t, ok := e.byGid[a.gid]; ok {
		return t
	}
	if a.site == SiteTaskStart {
		t := e.tasks[a.task]
		t.gid = a.gid
		e.byGid[a.gid] = t
		return t
	}
	if a.v != nil {
		if t, ok := e.byVM[a.v]; ok && t.gid == 0 {
			t.gid = a.gid
			e.byGid[a.gid] = t
			return t
		}
	}
	// a goroutine the engine did not expect: adopt it so that it is scheduled like any other
	t := &thread{id: len(e.threads), name: "anon" + strconv.Itoa(len(e.threads)), kind: kAnon, gid: a.gid, task: -1}
	e.threads = append(e.threads, t)
	e.byGid[a.gid] = t
	e.probe("anonThread")
	return t
}

func (e *Engine) onArrive(t *thread, a *arrival) {
	if t.at != nil {
		e.Fatal = "thread " + t.name + " arrived at " + SiteName(a.site) + " while parked at " + SiteName(t.at.site)
		return
	}
	t.at = a
	switch a.site {
	case tengo.VerifVMStep:
		e.logf("A %s %s ip=%d op=%d sp=%d fr=%d", t.name, SiteName(a.site), a.ip, a.op, a.sp, a.frames)
	case SiteHostCall:
		e.logf("A %s HostCall %s", t.name, a.name)
	case SiteYield:
		e.logf("A %s Yield %s", t.name, a.name)
		e.probe("yieldInsideBuiltin")
	case SiteOpEnd:
		e.logf("A %s OpEnd %d", t.name, a.opIdx)
	default:
		e.logf("A %s %s", t.name, SiteName(a.site))
	}
	switch a.site {
	case tengo.VerifLockR, tengo.VerifLockW:
		t.lockFree, t.stale = a.lockFree, false
	case SiteOpBegin:
		t.curOp = a.opIdx
		op := &e.Plan.Tasks[t.task][a.opIdx]
		if isRunOp(op.Kind) {
			r := &RunInfo{Task: t.task, OpIdx: a.opIdx, RunIdx: e.runCount[t.task], CtxIdx: op.Ctx - 1, caller: t, CancelDecision: -1}
			e.runCount[t.task]++
			e.runs = append(e.runs, r)
			t.run = r
		}
	case SiteCtxMade:
		cs := &ctxState{idx: a.ctxIdx, spec: e.Plan.Ctxs[a.ctxIdx], cancel: a.cancel, run: t.run}
		if pe := e.preCtx[t.task<<20|t.curOp]; pe != nil {
			cs.cancel = pe.cancel
		}
		switch cs.spec.Kind {
		case "timeout", "timeoutCause":
			cs.hasDL = true
			cs.deadline = e.now + time.Duration(cs.spec.DNs)
			if cs.spec.DNs <= 0 {
				e.probe("timeoutNonPositive")
			}
		case "deadlinePast":
			cs.hasDL = true
			cs.deadline = e.now - time.Second
			e.probe("deadlinePast")
		case "preCancelled", "childOfCancelled", "cancelledPastDeadline":
			cs.cancelled = true
			cs.fired = true
			e.probe(cs.spec.Kind)
		}
		e.ctxs = append(e.ctxs, cs)
		if t.run != nil {
			t.run.ctx = cs
			if cs.cancelled || (cs.hasDL && e.now >= cs.deadline) {
				cs.cancelled = false
				e.markCancelled(cs, "atCreation")
			}
		}
	case tengo.VerifRunCtxEnter:
		if r := t.run; r != nil && a.v != nil {
			r.vm = a.v
			vt := &thread{id: len(e.threads), name: t.name + ".vm" + strconv.Itoa(r.RunIdx), kind: kVM, task: t.task, parent: t, run: r}
			e.threads = append(e.threads, vt)
			e.byVM[a.v] = vt
			r.vmThread = vt
			// the goroutine does not exist yet; it is created right after this site
			vt.done = true // until it shows up
		}
	case tengo.VerifVMGoStart:
		if t.kind == kVM {
			t.done = false
			t.run.VMSpawned = true
		}
	case tengo.VerifRunCtxSpawned:
		if r := t.run; r != nil {
			r.VMSpawned = true
			if r.vmThread != nil && r.vmThread.gid == 0 {
				// goroutine created but not yet arrived: it will arrive in this same
				// quiescent state (batch), so nothing to do
				r.vmThread.done = false
			}
		}
	case tengo.VerifRunCtxCancelSeen:
		if r := t.run; r != nil {
			r.SawCancelBranch = true
			r.CallerPastSelect = true
			e.armStall(t, a.site)
		}
	case tengo.VerifRunCtxAborted:
		e.armStall(t, a.site)
	case tengo.VerifRunCtxReturn:
		if r := t.run; r != nil {
			r.CallerPastSelect = true
			r.Returned = true
		}
	case tengo.VerifVMGoPanic:
		if t.kind == kVM {
			t.run.VMPanicked = true
		}
	case SiteOpEnd:
		e.markLocksStale()
		m := opMeta{ret: e.decisions, lockStamp: t.lockStamp}
		if r := t.run; r != nil {
			r.Returned = true
			m.run = r
			t.run = nil
		}
		e.meta[t.task<<20|a.opIdx] = m
	case SiteHostCall:
		r := e.runOf(t)
		if r != nil {
			r.HostCalls++
			r.hostCallIdx++
		}
		t.hostRep = e.hostBehaviourFor(t, r, a)
		t.wakeAt = 0
		if t.hostRep.blockNs > 0 {
			t.wakeAt = e.now + time.Duration(t.hostRep.blockNs)
			e.logf("H %s blocks %dns", t.name, t.hostRep.blockNs)
			e.fired(plan.FaultHostBlock)
		}
	}
	if r := e.runOf(t); r != nil {
		e.checkCancelTrigger(r, t, a)
	}
}

func isRunOp(k string) bool {
	switch k {
	case plan.OpRun, plan.OpRunCtx, plan.OpScriptRun, plan.OpScriptRunCtx, plan.OpEval:
		return true
	}
	return false
}

func (e *Engine) runOf(t *thread) *RunInfo {
	if t.run != nil {
		return t.run
	}
	return nil
}

func (e *Engine) armStall(t *thread, site int) {
	r := t.run
	if r == nil {
		return
	}
	for _, f := range e.Plan.Faults {
		if f.Kind == plan.FaultStallCaller && f.Task == r.Task && f.Run == r.RunIdx && f.Site == SiteName(site) {
			t.stalled = true
			t.stallLeft = f.Steps
			e.fired(plan.FaultStallCaller + "@" + f.Site)
		}
	}
}

// checkCancelTrigger marks a controller-side cancellation as due when the
// plan's instant is reached by the arriving thread.
func (e *Engine) checkCancelTrigger(r *RunInfo, t *thread, a *arrival) {
	cs := r.ctx
	if cs == nil || !(cs.spec.Kind == "cancel" || cs.spec.Kind == "cancelCause" || cs.spec.Kind == "merged" || cs.spec.Kind == "timeoutCancelled") || cs.fired || cs.pending {
		return
	}
	sp := cs.spec
	due := false
	switch {
	case sp.AfterReturn:
		due = a.site == SiteOpEnd
	case sp.HostCall > 0:
		due = a.site == SiteHostCall && r.hostCallIdx == sp.HostCall
	case sp.Site != "":
		due = SiteName(a.site) == sp.Site
	default:
		due = a.site == tengo.VerifVMStep && r.Steps == sp.Step
	}
	if due {
		cs.pending = true
	}
}

// firePlanned issues due cancellations. Returns true if something happened
// (the loop then re-evaluates the quiescent state).
func (e *Engine) firePlanned() bool {
	did := false
	for _, cs := range e.sortedCtxs() {
		if !cs.pending || cs.fired {
			continue
		}
		if r := cs.run; r != nil && r.ChFilled && !r.CallerPastSelect && !r.Returned {
			continue // both-ready avoidance: deliver after the caller has taken the result
		}
		cs.fired = true
		cs.pending = false
		if r := cs.run; r != nil && r.vmThread != nil && r.vmThread.at != nil && r.vmThread.at.site == SiteHostCall {
			r.HostBlockedAtCancel = true
		}
		e.markCancelled(cs, "controller")
		// cancel on a helper goroutine so that the controller's own vector clock
		// never becomes a carrier between simulated threads
		raceEnable()
		go cs.cancel()
		raceDisable()
		synctest.Wait()
		e.drain()
		did = true
	}
	return did
}

func (e *Engine) enabled() []*thread {
	var evs, stalled []*thread
	for _, t := range e.threads {
		if t.done || t.at == nil {
			continue
		}
		a := t.at
		switch a.site {
		case tengo.VerifLockR, tengo.VerifLockW:
			if !t.lockFree {
				continue
			}
		case SiteHostCall:
			if t.wakeAt > e.now {
				continue
			}
		case tengo.VerifVMRunExit:
			if r := t.run; r != nil && t.kind == kVM && r.ctx != nil && r.ctx.cancelled && !r.CallerPastSelect && r.caller.at != nil {
				continue // both-ready avoidance
			}
		}
		if t.stalled {
			r := t.run
			if t.stallLeft == 0 || r == nil || r.vmThread == nil || r.vmThread.done || r.VMExited || r.ChFilled {
				t.stalled = false
				if r != nil && (r.VMExited || r.ChFilled) {
					e.probe("callerStalledUntilVMDone")
				}
			} else {
				stalled = append(stalled, t)
				continue
			}
		}
		evs = append(evs, t)
	}
	if len(evs) == 0 && len(stalled) > 0 {
		for _, t := range stalled {
			t.stalled = false
		}
		return stalled
	}
	sort.Slice(evs, func(i, j int) bool { return evs[i].id < evs[j].id })
	return evs
}

func (e *Engine) choose(evs []*thread) *thread {
	if e.CallerPriority {
		for _, t := range evs {
			if t.kind == kTask && t.run != nil && t.run.Cancelled && !t.stalled {
				return t
			}
		}
	}
	if len(evs) == 1 {
		return evs[0]
	}
	lastEnabled := false
	for _, t := range evs {
		if t == e.last {
			lastEnabled = true
		}
	}
	if e.stay > 0 && lastEnabled {
		e.stay--
		return e.last
	}
	if e.tapePos < len(e.Plan.Tape) {
		te := e.Plan.Tape[e.tapePos]
		e.tapePos++
		e.stay = te.Stay
		return evs[int(te.Pick)%len(evs)]
	}
	if lastEnabled {
		return e.last
	}
	return evs[0]
}

func (e *Engine) release(t *thread) {
	a := t.at
	t.at = nil
	e.decisions++
	if e.last != t {
		e.Stats.Switches++
		e.switchSig = mix64(e.switchSig ^ uint64(t.id+1)<<8 ^ uint64(a.site))
		if e.last != nil && RaceBuild && !e.Plan.Cfg.PoolShare {
			drainPools()
		}
		e.last = t
	}
	e.noteState()
	rep := reply{action: actProceed}
	r := e.runOf(t)
	switch a.site {
	case tengo.VerifVMStep:
		e.Stats.VMSteps++
		if r != nil {
			if f := e.faultAt(plan.FaultPanicAtStep, r, func(f *plan.Fault) bool { return f.Step == r.Steps }); f != nil && !r.InjectedPanic {
				rep.action = actPanic
				rep.panicVal = panicValue(f.Val)
				r.InjectedPanic = true
				e.fired(plan.FaultPanicAtStep + ":" + f.Val)
			}
			r.Steps++
			if r.Cancelled {
				if c := r.caller; c != nil && !c.stalled {
					r.StepsAfterCancelFair++
				}
			}
			if r.Returned {
				r.StepsAfterReturn++
			}
			if c := r.caller; c != nil && c.stalled && c.stallLeft > 0 {
				c.stallLeft--
			}
		}
		if e.Plan.Cfg.TickNs > 0 {
			e.pendingTick = true
		}
	case tengo.VerifVMRunExit:
		if r != nil && t.kind == kVM {
			r.ChFilled = true
		}
	case tengo.VerifVMGoEnd, tengo.VerifVMGoPanic:
		if t.kind == kVM {
			t.done = true
			t.run.VMExited = true
			if a.site == tengo.VerifVMGoPanic {
				t.run.ChFilled = true
			}
		}
	case tengo.VerifRunCtxSpawned:
		if r != nil {
			// the caller now enters its select: it blocks there if neither case is
			// ready and passes through to the next site otherwise
			r.CallerPastSelect = true
		}
	case SiteOpBegin:
		rep.stamp = e.decisions
		t.lockStamp = 0
	case tengo.VerifLockR, tengo.VerifLockW:
		if t.kind == kTask && t.lockStamp == 0 {
			t.lockStamp = e.decisions
		}
		e.markLocksStale()
	case SiteHostCall:
		rep.host = t.hostRep
		t.wakeAt = 0
	case SiteTaskDone:
		t.done = true
	}
	e.logf("D %d %s@%s", e.decisions, t.name, SiteName(a.site))
	a.reply <- rep
}

func (e *Engine) faultAt(kind string, r *RunInfo, match func(*plan.Fault) bool) *plan.Fault {
	for i := range e.Plan.Faults {
		f := &e.Plan.Faults[i]
		if f.Kind == kind && f.Task == r.Task && f.Run == r.RunIdx && match(f) {
			return f
		}
	}
	return nil
}

func (e *Engine) noteState() {
	// abstract state: site of every thread, cancel flags, VM position bucket
	var h uint64 = 1469598103934665603
	for _, t := range e.threads {
		var s uint64
		switch {
		case t.done:
			s = 1
		case t.at == nil:
			s = 2
		default:
			s = uint64(t.at.site) + 10
			if t.at.site == tengo.VerifVMStep {
				s = s<<16 | uint64(t.at.op)<<4 | uint64(bucket(t.at.frames))
			}
		}
		h = mix64(h ^ s)
	}
	for _, cs := range e.sortedCtxs() {
		if cs.cancelled {
			h = mix64(h ^ uint64(cs.idx+77))
		}
	}
	e.stateSet[h] = struct{}{}
}

func bucket(n int) int {
	b := 0
	for n > 0 {
		n >>= 1
		b++
	}
	return b
}

func mix64(z uint64) uint64 {
	z += 0x9e3779b97f4a7c15
	z = (z ^ (z >> 30)) * 0xbf58476d1ce4e5b9
	z = (z ^ (z >> 27)) * 0x94d049bb133111eb
	return z ^ (z >> 31)
}

// teardown ends every thread that is still alive: parked threads are released
// with the unwind action (the hook panics with a private sentinel), contexts
// are cancelled so that callers blocked in select come back.
func (e *Engine) teardown() {
	if e.allDone() {
		return
	}
	e.unwinding = true
	e.logf("TEARDOWN %s", e.describeThreads())
	for _, cs := range e.sortedCtxs() {
		if cs.cancel != nil {
			raceEnable()
			go cs.cancel()
			raceDisable()
		}
	}
	for round := 0; round < 100000; round++ {
		synctest.Wait()
		// receive without interpreting; everything gets the unwind reply
		progressed := false
		for {
			select {
			case a := <-e.arrive:
				t := e.resolve(&a)
				t.at = &a
				progressed = true
				continue
			default:
			}
			break
		}
		alive := 0
		for _, t := range e.threads {
			if t.done {
				continue
			}
			if t.at != nil {
				a := t.at
				t.at = nil
				progressed = true
				switch a.site {
				case SiteTaskDone:
					t.done = true
					a.reply <- reply{action: actProceed}
				case SiteTaskStart, SiteOpBegin, SiteOpEnd:
					if a.site == SiteOpEnd {
						m := opMeta{ret: e.decisions, lockStamp: t.lockStamp}
						if r := t.run; r != nil {
							m.run = r
							t.run = nil
						}
						e.meta[t.task<<20|a.opIdx] = m
					}
					a.reply <- reply{action: actStop}
				case tengo.VerifVMGoEnd, tengo.VerifVMGoPanic:
					t.done = true
					a.reply <- reply{action: actProceed}
				case SiteCtxMade:
					a.reply <- reply{action: actProceed}
				default:
					a.reply <- reply{action: actUnwind}
				}
				continue
			}
			alive++
		}
		if alive == 0 && !progressed {
			break
		}
		if !progressed {
			// threads blocked inside tengo with nothing to wake them
			allTasksDone := true
			for _, t := range e.tasks {
				if !t.done {
					allTasksDone = false
				}
			}
			if allTasksDone {
				break
			}
			// threads are blocked inside tengo and nothing can wake them: the episode
			// cannot be joined. If the loop has already reported the deadlock this is
			// the violation itself, otherwise it is a simulator problem.
			e.stuck = true
			if e.nViol == 0 {
				e.Fatal = "teardown: threads blocked inside tengo: " + e.describeThreads()
			}
			break
		}
	}
}

// nap yields the processor for a moment of REAL time (the bubble's clock is
// fake): used only while waiting for exited goroutines to be retired.
func nap() {
	var ts = [1]int{}
	for i := 0; i < 2000; i++ {
		ts[0] += i
		runtime.Gosched()
	}
}
