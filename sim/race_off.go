//go:build !race

package sim

import "runtime/debug"

const RaceBuild = false

func raceDisable() {}
func raceEnable()  {}
func drainPools()  {}

// Episodes should not depend on what the process ran before: every episode
// starts from empty sync.Pools (see pools.go). Two full collections per episode
// would do the same but double the cost of a check.
func raceWorkerInit() {}

func betweenEpisodes() {
	old := debug.SetGCPercent(-1) // no collection may start while the pools are aged by hand
	poolCleanup()
	poolCleanup()
	debug.SetGCPercent(old)
}
