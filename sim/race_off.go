//go:build !race

package sim

const RaceBuild = false

func raceDisable()     {}
func raceEnable()      {}
func drainPools()      {}
func raceWorkerInit()  {}
func betweenEpisodes() {}
