// This file lets pools.go declare a body-less function bound by go:linkname.
