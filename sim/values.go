package sim

import (
	"errors"
	"fmt"
	"math"
	"sort"
	"time"

	"github.com/d5/tengo/v2"

	"verif/plan"
)

// ToGo turns a plan value into the Go value handed to tengo (Script.Add,
// Compiled.Set, Eval params). Always builds fresh containers.
func ToGo(v plan.Value) interface{} {
	switch v.T {
	case "nil":
		return nil
	case "int":
		return int(v.I)
	case "int64":
		return v.I
	case "float":
		return v.F
	case "nan":
		return math.NaN()
	case "nilbytes":
		return []byte(nil)
	case "nilmap":
		return map[string]interface{}(nil)
	case "nilslice":
		return []interface{}(nil)
	case "nilerror":
		var err error
		return err
	case "string":
		return v.S
	case "bool":
		return v.B
	case "rune":
		return rune(v.I)
	case "byte":
		return byte(v.I)
	case "bytes":
		return append([]byte{}, v.Y...)
	case "array":
		out := make([]interface{}, len(v.A))
		for i, e := range v.A {
			out[i] = ToGo(e)
		}
		return out
	case "map":
		out := make(map[string]interface{}, len(v.M))
		for k, e := range v.M {
			out[k] = ToGo(e)
		}
		return out
	case "error":
		return errors.New(v.S)
	case "time":
		return time.Unix(v.I, 0).UTC()
	// tengo objects passed through as they are
	case "obj:immarray":
		arr := make([]tengo.Object, len(v.A))
		for i, e := range v.A {
			arr[i], _ = tengo.FromInterface(ToGo(e))
		}
		return &tengo.ImmutableArray{Value: arr}
	case "obj:immmap":
		m := make(map[string]tengo.Object, len(v.M))
		for k, e := range v.M {
			m[k], _ = tengo.FromInterface(ToGo(e))
		}
		return &tengo.ImmutableMap{Value: m}
	case "obj:stringer":
		return &hostStringer{n: v.I}
	case "obj:objarray": // []tengo.Object
		arr := make([]tengo.Object, len(v.A))
		for i, e := range v.A {
			arr[i], _ = tengo.FromInterface(ToGo(e))
		}
		return arr
	case "obj:objmap": // map[string]tengo.Object
		m := make(map[string]tengo.Object, len(v.M))
		for k, e := range v.M {
			m[k], _ = tengo.FromInterface(ToGo(e))
		}
		return m
	// Go kinds outside the documented conversion table
	case "int32x": // int32 is rune in Go: documented as char; kept for completeness
		return int32(v.I)
	case "uint":
		return uint(v.I)
	case "int16":
		return int16(v.I)
	case "uint64":
		return uint64(v.I)
	case "float32":
		return float32(v.F)
	case "struct":
		return struct{ X int }{int(v.I)}
	case "strslice":
		return []string{v.S}
	case "intslice":
		return []int{int(v.I)}
	case "chan":
		return make(chan int)
	}
	panic("ToGo: unknown value kind " + v.T)
}

// FromGo turns what tengo hands back (Variable.Value, Eval result) into a plain
// value with no pointers into tengo memory.
func FromGo(x interface{}) plan.Value {
	switch x := x.(type) {
	case nil:
		return plan.Nil()
	case int64:
		return plan.Int(x)
	case int:
		return plan.GoInt(int64(x))
	case float64:
		if math.IsNaN(x) {
			return plan.Value{T: "nan"}
		}
		return plan.Float(x)
	case string:
		return plan.Str(x)
	case bool:
		return plan.Bool(x)
	case rune:
		return plan.Rune(x)
	case []byte:
		return plan.Bytes(append([]byte{}, x...))
	case []interface{}:
		out := make([]plan.Value, len(x))
		for i, e := range x {
			out[i] = FromGo(e)
		}
		return plan.Value{T: "array", A: out}
	case map[string]interface{}:
		out := make(map[string]plan.Value, len(x))
		for k, e := range x {
			out[k] = FromGo(e)
		}
		return plan.Map(out)
	case time.Time:
		return plan.Value{T: "time", I: x.Unix()}
	case error:
		return plan.Value{T: "error", S: x.Error()}
	case tengo.Object:
		return plan.Value{T: "obj", S: x.TypeName()}
	}
	return plan.Value{T: "go", S: fmt.Sprintf("%T", x)}
}

// RawValue converts an object with a node budget and cycle detection: safe on
// anything a hostile script may have left in the globals.
func RawValue(o tengo.Object) plan.Value {
	w := &rawWalker{seen: map[tengo.Object]bool{}, budget: 5000}
	return w.walk(o)
}

type rawWalker struct {
	seen   map[tengo.Object]bool
	budget int
}

func (w *rawWalker) walk(o tengo.Object) plan.Value {
	w.budget--
	if w.budget < 0 {
		return plan.Value{T: "truncated"}
	}
	var kids []tengo.Object
	var keys []string
	t := ""
	switch x := o.(type) {
	case nil:
		return plan.Value{T: "gonil"}
	case *tengo.Array:
		t, kids = "array", x.Value
	case *tengo.ImmutableArray:
		t, kids = "immarray", x.Value
	case *tengo.Map:
		t = "map"
		for k := range x.Value {
			keys = append(keys, k)
		}
		sort.Strings(keys)
		for _, k := range keys {
			kids = append(kids, x.Value[k])
		}
	case *tengo.ImmutableMap:
		t = "immmap"
		for k := range x.Value {
			keys = append(keys, k)
		}
		sort.Strings(keys)
		for _, k := range keys {
			kids = append(kids, x.Value[k])
		}
	case *tengo.Error:
		t, kids = "error", []tengo.Object{x.Value}
	default:
		return ObjToValue(o, 0)
	}
	if w.seen[o] {
		return plan.Value{T: "cycle"}
	}
	w.seen[o] = true
	defer delete(w.seen, o)
	out := plan.Value{T: t}
	if keys != nil {
		out.M = map[string]plan.Value{}
		for i, k := range keys {
			out.M[k] = w.walk(kids[i])
		}
		return out
	}
	out.A = make([]plan.Value, 0, len(kids))
	for _, k := range kids {
		out.A = append(out.A, w.walk(k))
	}
	return out
}

// ObjToValue converts a tengo object structurally (used where the oracle needs
// the tengo-side type, e.g. String vs Bytes lengths, immutability).
func ObjToValue(o tengo.Object, depth int) plan.Value {
	if depth > 64 {
		return plan.Value{T: "deep"}
	}
	switch o := o.(type) {
	case nil:
		return plan.Value{T: "gonil"}
	case *tengo.Int:
		return plan.Int(o.Value)
	case *tengo.Float:
		return plan.Float(o.Value)
	case *tengo.String:
		return plan.Str(o.Value)
	case *tengo.Bool:
		return plan.Bool(!o.IsFalsy())
	case *tengo.Char:
		return plan.Rune(o.Value)
	case *tengo.Bytes:
		return plan.Bytes(append([]byte{}, o.Value...))
	case *tengo.Array:
		out := make([]plan.Value, len(o.Value))
		for i, e := range o.Value {
			out[i] = ObjToValue(e, depth+1)
		}
		return plan.Value{T: "array", A: out}
	case *tengo.ImmutableArray:
		out := make([]plan.Value, len(o.Value))
		for i, e := range o.Value {
			out[i] = ObjToValue(e, depth+1)
		}
		return plan.Value{T: "immarray", A: out}
	case *tengo.Map:
		out := make(map[string]plan.Value, len(o.Value))
		for k, e := range o.Value {
			out[k] = ObjToValue(e, depth+1)
		}
		return plan.Value{T: "map", M: out}
	case *tengo.ImmutableMap:
		out := make(map[string]plan.Value, len(o.Value))
		for k, e := range o.Value {
			out[k] = ObjToValue(e, depth+1)
		}
		return plan.Value{T: "immmap", M: out}
	case *tengo.Error:
		return plan.Value{T: "error", A: []plan.Value{ObjToValue(o.Value, depth+1)}}
	case *tengo.Time:
		return plan.Value{T: "time", I: o.Value.Unix()}
	case *tengo.Undefined:
		return plan.Nil()
	}
	return plan.Value{T: "obj", S: o.TypeName()}
}

// WalkLengths reports the longest String and Bytes reachable from o.
func WalkLengths(o tengo.Object, depth int, maxStr, maxBytes *int) {
	if depth > 64 || o == nil {
		return
	}
	switch o := o.(type) {
	case *tengo.String:
		if len(o.Value) > *maxStr {
			*maxStr = len(o.Value)
		}
	case *tengo.Bytes:
		if len(o.Value) > *maxBytes {
			*maxBytes = len(o.Value)
		}
	case *tengo.Array:
		for _, e := range o.Value {
			WalkLengths(e, depth+1, maxStr, maxBytes)
		}
	case *tengo.ImmutableArray:
		for _, e := range o.Value {
			WalkLengths(e, depth+1, maxStr, maxBytes)
		}
	case *tengo.Map:
		for _, e := range o.Value {
			WalkLengths(e, depth+1, maxStr, maxBytes)
		}
	case *tengo.ImmutableMap:
		for _, e := range o.Value {
			WalkLengths(e, depth+1, maxStr, maxBytes)
		}
	case *tengo.Error:
		WalkLengths(o.Value, depth+1, maxStr, maxBytes)
	}
}

func sortedKeys(m map[string]plan.Value) []string {
	ks := make([]string, 0, len(m))
	for k := range m {
		ks = append(ks, k)
	}
	sort.Strings(ks)
	return ks
}
