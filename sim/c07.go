package sim

import (
	"fmt"

	"verif/plan"
)

func init() { runners["C07"] = runC07 }

// PromptBound is the liveness bound of C07's oracle 2: once the context is
// cancelled and the caller is no longer being held back by the simulator, the
// call returns within this many further VM instructions.
const PromptBound = 10000

func stripCtx(ops []plan.Op) []plan.Op {
	out := make([]plan.Op, len(ops))
	copy(out, ops)
	for i := range out {
		out[i].Ctx = 0
	}
	return out
}

// baselineEngine builds a second engine that only ever runs in solo mode, with
// freshly built scripts (fresh input values): the undisturbed configuration.
func baselineEngine(p *plan.Plan) (*Engine, error) {
	be := NewEngine(p)
	for i := range p.Scripts {
		s, err := be.BuildScript(&p.Scripts[i])
		if err != nil {
			return nil, err
		}
		be.Scripts = append(be.Scripts, s)
	}
	return be, nil
}

func runC07(e *Engine, res *EpisodeResult) {
	p := e.Plan
	if p.Params["enum"] == 1 {
		c07Enumerate(e, res)
		return
	}
	termA := p.Params["termA"] == 1
	ops := p.Tasks[0]
	var iRunA, iGetA, iRunB, iGetB int
	var baseAops, baseBops []plan.Op
	switch p.Shape {
	case "compiled":
		iRunA, iGetA, iRunB, iGetB = 3, 4, 7, 8
		baseAops = stripCtx(ops[:5])
		baseBops = append(append([]plan.Op{ops[0]}, ops[5:7]...), ops[7], ops[8])
	case "script":
		iRunA, iGetA, iRunB, iGetB = 0, 1, 4, 5
		baseAops = stripCtx(ops[:2])
		baseBops = append([]plan.Op{{Kind: plan.OpCompile, Script: 0, Dst: 1}}, ops[2:6]...)
	case "eval":
		iRunA, iGetA, iRunB, iGetB = 0, -1, 1, -1
		baseAops = stripCtx(ops[:1])
		baseBops = ops[1:2]
	default:
		res.Fatal = "C07: unknown shape " + p.Shape
		return
	}
	var baseA, baseB []*OpResult
	if termA {
		be, err := baselineEngine(p)
		if err != nil {
			res.Fatal = "C07 baseline: " + err.Error()
			return
		}
		baseA = be.SoloOps(baseAops)
	}
	be, err := baselineEngine(p)
	if err != nil {
		res.Fatal = "C07 baseline: " + err.Error()
		return
	}
	baseB = be.SoloOps(baseBops)

	for i := range p.Scripts {
		s, err := e.BuildScript(&p.Scripts[i])
		if err != nil {
			res.Fatal = "C07 build: " + err.Error()
			return
		}
		e.Scripts = append(e.Scripts, s)
	}
	e.CallerPriority = true
	e.RunTasks()
	if e.Fatal != "" {
		return
	}
	got := e.Results[0]
	cs := p.Ctxs[0]
	res.Case = p.Notes["prog"] + "|" + p.Shape + "|" + cs.Kind
	if e.CapHit {
		// the step cap ended the episode: a cancelled call that has not returned by
		// then violates the bound whatever the teardown made of it afterwards
		for _, r := range e.runs {
			if r.Cancelled && !r.Returned {
				e.violate("C07.prompt", "context cancelled at decision %d (VM at step %d, %s) but the call had not returned when the step cap (%d decisions) was reached; %d instructions executed after the cancellation",
					r.CancelDecision, r.CancelAtSteps, r.CancelWhere, e.maxDecisions, r.Steps-r.CancelAtSteps)
				res.Nontrivial = true
				return
			}
		}
	}
	if len(got) <= iRunA {
		res.Inconclusive = "run under test did not complete"
		return
	}
	ra := got[iRunA]
	r := ra.Run
	if r != nil {
		res.Case += "|" + r.CancelWhere
		res.Nontrivial = r.Cancelled
	}
	if ra.unwound {
		res.Inconclusive = "episode unwound"
		return
	}
	ctxErrName := "canceled"
	if cs.Kind == "timeout" || cs.Kind == "deadlinePast" || cs.Kind == "timeoutCause" {
		ctxErrName = "deadline"
	}
	// oracle 1: return value
	switch {
	case ra.Panic != "":
		e.violate("C07.panic", "panic reached the caller of the context-aware run: %s", ra.Panic)
	case ra.HasErr && (ra.ErrIs["canceled"] || ra.ErrIs["deadline"]):
		if r == nil || !r.Cancelled {
			e.violate("C07.result", "call returned %q but its context was not cancelled before it returned", ra.Err)
		} else if !ra.ErrIs[ctxErrName] {
			e.violate("C07.result", "call returned %q, which is not this context's error (%s)", ra.Err, ctxErrName)
		} else if !ra.ErrIs["ctx"] {
			e.violate("C07.result", "call returned %q, which is not what the context's own Err() reports after the call", ra.Err)
		}
	default:
		if !termA {
			e.violate("C07.result", "program does not terminate with these inputs, yet the call returned %s (cancelled=%v)", ra.Outcome(), r != nil && r.Cancelled)
		} else {
			want := baseA[iRunA]
			if ra.Outcome() != want.Outcome() {
				e.violate("C07.result", "call returned %s; the undisturbed run of the same program and inputs returns %s (cancelled=%v)", ra.Outcome(), want.Outcome(), r != nil && r.Cancelled)
			} else if iGetA >= 0 && len(got) > iGetA && got[iGetA].Vars.Key() != baseA[iGetA].Vars.Key() {
				e.violate("C07.result", "call returned the run's own result but globals are %s; undisturbed run gives %s", got[iGetA].Vars.Key(), baseA[iGetA].Vars.Key())
			}
		}
	}
	// oracle 2: promptness
	for _, ri := range e.runs {
		if ri.Cancelled && ri.StepsAfterCancelFair > PromptBound {
			e.violate("C07.prompt", "%d VM instructions executed after cancellation (bound %d) before the call returned", ri.StepsAfterCancelFair, PromptBound)
		}
		// oracle 3: nothing left behind
		if ri.StepsAfterReturn > 0 {
			e.violate("C07.leftover", "the VM of run %d executed %d instructions after its RunContext call had returned", ri.RunIdx, ri.StepsAfterReturn)
		}
	}
	if e.CapHit {
		alive := ""
		for _, t := range e.threads {
			if !t.done && t.kind == kVM {
				alive += t.name + " "
			}
		}
		if alive != "" && len(got) == len(ops) {
			e.violate("C07.leftover", "VM goroutine(s) %sstill running after every call had returned", alive)
		} else if len(res.Violations)+len(e.Violations) == 0 {
			res.Inconclusive = "step cap reached"
		}
		return
	}
	// oracle 4: re-run on the same object
	if len(got) > iRunB {
		rb := got[iRunB]
		wb := baseB[len(baseB)-1]
		wrun := baseB[len(baseB)-1]
		if iGetB >= 0 {
			wrun = baseB[len(baseB)-2]
		}
		if rb.Outcome() != wrun.Outcome() {
			e.violate("C07.rerun", "re-run after the cancelled/finished run returned %s; a fresh object with the same inputs returns %s", rb.Outcome(), wrun.Outcome())
		} else if iGetB >= 0 && len(got) > iGetB && got[iGetB].Vars.Key() != wb.Vars.Key() {
			e.violate("C07.rerun", "globals after the re-run are %s; a fresh object with the same inputs gives %s", got[iGetB].Vars.Key(), wb.Vars.Key())
		}
		if r != nil && r.Cancelled {
			e.probe("rerunAfterCancel")
		}
	} else if len(e.Violations) == 0 {
		res.Inconclusive = fmt.Sprintf("only %d of %d ops completed", len(got), len(ops))
	}
}

// c07Enumerate: for a short terminating program, cancel at EVERY VM instruction
// k = 0..S+1 of the run under test, each with every caller-stall variant
// (none, 0, 1, 3 steps and "until the VM has finished", at both stall sites).
// Every (k, stall) pair is a complete sub-episode with its own engine, run in
// the same bubble, checked by the same oracle.
func c07Enumerate(e *Engine, res *EpisodeResult) {
	p := e.Plan
	sub := func(step int, stall *plan.Fault) (*Engine, *EpisodeResult) {
		q := p.Clone()
		delete(q.Params, "enum")
		q.Ctxs[0] = plan.CtxSpec{Kind: "cancel", Step: step}
		q.Faults = nil
		if stall != nil {
			q.Faults = []plan.Fault{*stall}
		}
		se := NewEngine(q)
		sr := &EpisodeResult{}
		betweenEpisodes() // every sub-episode starts from empty pools, like an episode
		runC07(se, sr)
		e.Stats.Decisions += se.Stats.Decisions
		e.Stats.Switches += se.Stats.Switches
		e.Stats.VMSteps += se.Stats.VMSteps
		e.Stats.SimNs += se.Stats.SimNs
		for k, v := range se.Stats.Probes {
			e.Stats.Probes[k] += v
		}
		for k, v := range se.Stats.Fired {
			e.Stats.Fired[k] += v
		}
		res.Evals++
		return se, sr
	}
	// length of the undisturbed run
	se, sr := sub(1<<30, nil)
	if se.Fatal != "" || sr.Inconclusive != "" || len(se.runs) == 0 {
		res.Inconclusive = "enumeration: reference run inconclusive"
		return
	}
	S := se.runs[0].Steps
	if S > 400 {
		res.Inconclusive = "enumeration: program too long"
		return
	}
	stalls := []*plan.Fault{nil}
	for _, site := range []string{"RunCtxCancelSeen", "RunCtxAborted"} {
		for _, n := range []int{0, 1, 3, -1} {
			stalls = append(stalls, &plan.Fault{Kind: plan.FaultStallCaller, Task: 0, Run: 0, Site: site, Steps: n})
		}
	}
	for k := 0; k <= S+1; k++ {
		for _, st := range stalls {
			se, sr := sub(k, st)
			if se.Fatal != "" {
				e.Fatal = se.Fatal
				return
			}
			desc := "no stall"
			if st != nil {
				desc = fmt.Sprintf("caller stalled at %s for %d steps", st.Site, st.Steps)
			}
			e.logf("SUB k=%d %s digest=%s", k, desc, se.Digest())
			for _, v := range se.Violations {
				e.violate(v.Oracle, "[cancel at instruction %d of %d, %s] %s", k, S, desc, v.Detail)
			}
			if len(se.Violations) > 0 {
				return
			}
			if sr.Inconclusive != "" {
				e.probe("enumSubInconclusive")
			}
		}
	}
	e.probe("enumeratedPrograms")
	res.Nontrivial = true
	res.Case = "enum|" + p.Notes["prog"] + "|" + fmt.Sprint(bucket(S))
}
