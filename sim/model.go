package sim

import (
	"fmt"
	"math"
	"sort"
	"strconv"
	"strings"

	"verif/gen"
	"verif/plan"
)

// Reference model for C15: scripts (variable tables), compiled objects (name
// set + name -> value store), clones. Values are plan.Values in "tengo-side"
// form: int64 float string bool rune bytes array immarray map immmap time
// error(A[0]=inner) nil(undefined) obj(S=type name).
//
// The conversion functions follow the DOCUMENTED tables
// (docs/interoperability.md "Type Conversion Table", docs/runtime-types.md
// "Type Conversion/Coercion Table"), not the implementation.

// mIn: Go value handed to Add/Set/Eval -> tengo-side value, or ok=false if the
// Go type is not in the conversion table.
func mIn(v plan.Value) (plan.Value, bool) {
	switch v.T {
	case "nil":
		return plan.Nil(), true
	case "int", "int64":
		return plan.Int(v.I), true
	case "float":
		return plan.Float(v.F), true
	case "nan":
		return plan.Value{T: "nan"}, true
	case "nilbytes":
		return plan.Bytes([]byte{}), true
	case "nilmap":
		return plan.Value{T: "map", M: map[string]plan.Value{}}, true
	case "nilslice":
		return plan.Value{T: "array"}, true
	case "nilerror":
		return plan.Nil(), true
	case "string":
		return plan.Str(v.S), true
	case "bool":
		return plan.Bool(v.B), true
	case "rune", "byte":
		return plan.Rune(rune(v.I)), true
	case "bytes":
		return plan.Bytes(append([]byte{}, v.Y...)), true
	case "time":
		return plan.Value{T: "time", I: v.I}, true
	case "error":
		return plan.Value{T: "error", A: []plan.Value{plan.Str(v.S)}}, true
	case "array", "obj:objarray", "obj:immarray":
		out := plan.Value{T: "array", A: make([]plan.Value, len(v.A))}
		if v.T == "obj:immarray" {
			out.T = "immarray"
		}
		for i, e := range v.A {
			c, ok := mIn(e)
			if !ok {
				return plan.Value{}, false
			}
			out.A[i] = c
		}
		return out, true
	case "map", "obj:objmap", "obj:immmap":
		out := plan.Value{T: "map", M: map[string]plan.Value{}}
		if v.T == "obj:immmap" {
			out.T = "immmap"
		}
		for k, e := range v.M {
			c, ok := mIn(e)
			if !ok {
				return plan.Value{}, false
			}
			out.M[k] = c
		}
		return out, true
	}
	return plan.Value{}, false
}

// mOut: tengo-side value -> what Variable.Value() hands back (Go side).
func mOut(v plan.Value) plan.Value {
	switch v.T {
	case "array", "immarray":
		out := plan.Value{T: "array", A: make([]plan.Value, len(v.A))}
		for i, e := range v.A {
			out.A[i] = mOut(e)
		}
		return out
	case "map", "immmap":
		out := plan.Map(nil)
		for k, e := range v.M {
			out.M[k] = mOut(e)
		}
		return out
	case "error":
		return plan.Value{T: "error", S: "error: ..."} // compared loosely, see valueMatches
	}
	return v
}

// valueMatches compares a Go-side value read back with the model's expectation.
func valueMatches(got, want plan.Value, inner *plan.Value) bool {
	if want.T == "error" {
		// documented: an error reads back as an error whose text is "error: ..."
		return got.T == "error" && strings.HasPrefix(got.S, "error: ")
	}
	if got.T != want.T {
		return false
	}
	switch want.T {
	case "array":
		if len(got.A) != len(want.A) {
			return false
		}
		for i := range want.A {
			if !valueMatches(got.A[i], want.A[i], nil) {
				return false
			}
		}
		return true
	case "map":
		if len(got.M) != len(want.M) {
			return false
		}
		for k, w := range want.M {
			g, ok := got.M[k]
			if !ok || !valueMatches(g, w, nil) {
				return false
			}
		}
		return true
	case "float":
		return got.F == want.F || (math.IsNaN(got.F) && math.IsNaN(want.F))
	}
	return got.Key() == want.Key()
}

var mTypeNames = map[string]string{"int64": "int", "float": "float", "nan": "float", "string": "string", "bool": "bool", "rune": "char", "bytes": "bytes",
	"array": "array", "immarray": "immutable-array", "map": "map", "immmap": "immutable-map", "time": "time", "error": "error", "nil": "undefined"}

func mFalsy(v plan.Value) bool {
	switch v.T {
	case "int64":
		return v.I == 0
	case "string":
		return len(v.S) == 0
	case "float":
		return math.IsNaN(v.F)
	case "nan":
		return true
	case "bool":
		return !v.B
	case "rune":
		return v.I == 0
	case "bytes":
		return len(v.Y) == 0
	case "array", "immarray":
		return len(v.A) == 0
	case "map", "immmap":
		return len(v.M) == 0
	case "time":
		return false // generated times are never the zero time
	}
	return true // error, undefined
}

// accessorMismatch checks the typed accessors of a Variable against the
// documented coercion table; cells the table leaves open are not checked.
func accessorMismatch(acc map[string]string, v plan.Value) string {
	exp := map[string]string{}
	if v.T == "immarray" || v.T == "immmap" {
		// the tables have no row for immutable containers (and Clone hands back
		// mutable copies of them): only Value() is compared for these
		return ""
	}
	if tn, ok := mTypeNames[v.T]; ok {
		exp["type"] = tn
	}
	exp["undef"] = fmt.Sprint(v.T == "nil")
	zero := func(keys ...string) {
		for _, k := range keys {
			switch k {
			case "int", "int64", "char":
				exp[k] = "0"
			case "float":
				exp[k] = "0"
			case "bytes":
				exp[k] = `""`
			case "array", "map":
				exp[k] = plan.Nil().Key()
			case "error":
				exp[k] = "<nil>"
			}
		}
	}
	switch v.T {
	case "int64":
		exp["int64"] = fmt.Sprint(v.I)
		exp["int"] = fmt.Sprint(int(v.I))
		exp["float"] = fmt.Sprint(float64(v.I))
		exp["char"] = fmt.Sprint(rune(v.I))
		exp["string"] = strconv.FormatInt(v.I, 10)
		zero("bytes", "array", "map", "error")
	case "string":
		if n, err := strconv.ParseInt(v.S, 10, 64); err == nil {
			exp["int64"], exp["int"] = fmt.Sprint(n), fmt.Sprint(int(n))
		} else {
			zero("int", "int64")
		}
		if f, err := strconv.ParseFloat(v.S, 64); err == nil {
			exp["float"] = fmt.Sprint(f)
		} else {
			zero("float")
		}
		exp["string"] = v.S
		exp["bytes"] = fmt.Sprintf("%q", []byte(v.S))
		zero("char", "array", "map", "error")
	case "nan":
		exp["float"] = "NaN"
		zero("char", "bytes", "array", "map", "error")
	case "float":
		exp["int64"], exp["int"] = fmt.Sprint(int64(v.F)), fmt.Sprint(int(v.F))
		exp["float"] = fmt.Sprint(v.F)
		zero("char", "bytes", "array", "map", "error")
	case "bool":
		if v.B {
			exp["int"], exp["int64"], exp["string"] = "1", "1", "true"
		} else {
			exp["int"], exp["int64"], exp["string"] = "0", "0", "false"
		}
		zero("float", "char", "bytes", "array", "map", "error")
	case "rune":
		exp["int"], exp["int64"] = fmt.Sprint(v.I), fmt.Sprint(v.I)
		exp["char"] = fmt.Sprint(v.I)
		exp["string"] = string(rune(v.I))
		zero("float", "bytes", "array", "map", "error")
	case "bytes":
		exp["bytes"] = fmt.Sprintf("%q", v.Y)
		exp["string"] = string(v.Y)
		zero("int", "int64", "float", "char", "array", "map", "error")
	case "array":
		if len(v.A) > 0 { // an empty array may read back as a nil or an empty slice
			exp["array"] = mOutKey(v)
		}
		zero("int", "int64", "float", "char", "bytes", "map", "error")
	case "map":
		exp["map"] = mOutKey(v)
		zero("int", "int64", "float", "char", "bytes", "array", "error")
	case "time":
		zero("int", "int64", "float", "char", "bytes", "array", "map", "error")
	case "error":
		zero("int", "int64", "float", "char", "bytes", "array", "map")
	case "nil":
		exp["string"] = ""
		zero("int", "int64", "float", "char", "bytes", "array", "map", "error")
	}
	if _, known := mTypeNames[v.T]; known && v.T != "immarray" && v.T != "immmap" {
		exp["bool"] = fmt.Sprint(!mFalsy(v))
	}
	keys := make([]string, 0, len(exp))
	for k := range exp {
		keys = append(keys, k)
	}
	sort.Strings(keys)
	for _, k := range keys {
		got, ok := acc[k]
		if !ok {
			continue
		}
		if k == "float" {
			gf, _ := strconv.ParseFloat(got, 64)
			wf, _ := strconv.ParseFloat(exp[k], 64)
			if gf != wf && !(math.IsNaN(gf) && math.IsNaN(wf)) {
				return fmt.Sprintf("%s() = %s, the coercion table gives %s", k, got, exp[k])
			}
			continue
		}
		if (k == "array" || k == "map") && exp[k] != plan.Nil().Key() && hasError(v) {
			continue // nested errors read back as "error: ..." texts: compared by Get's value check
		}
		if got != exp[k] {
			return fmt.Sprintf("%s() = %s, the coercion table gives %s", k, got, exp[k])
		}
	}
	if v.T == "error" && !strings.HasPrefix(acc["error"], "error: ") {
		return fmt.Sprintf("error() = %s, expected an error whose text starts with \"error: \"", acc["error"])
	}
	if v.T == "error" && !strings.HasPrefix(acc["string"], "error: ") {
		return fmt.Sprintf("string() = %s, the coercion table gives \"error: ...\"", acc["string"])
	}
	return ""
}

func hasError(v plan.Value) bool {
	if v.T == "error" {
		return true
	}
	for _, e := range v.A {
		if hasError(e) {
			return true
		}
	}
	for _, e := range v.M {
		if hasError(e) {
			return true
		}
	}
	return false
}

func mOutKey(v plan.Value) string { return mOut(v).Key() }

// ---------------------------------------------------------------------------
// State and step function
// ---------------------------------------------------------------------------

type mScript struct {
	vars map[string]plan.Value // tengo-side
}

type mObj struct {
	script int
	names  map[string]bool
	store  map[string]plan.Value
	budget bool // compiled with an allocation budget: any run may stop early
}

// mState is treated as immutable: step functions copy what they change.
type mState struct {
	scripts map[int]*mScript
	objs    map[int]*mObj
}

func (s *mState) clone() *mState {
	n := &mState{scripts: map[int]*mScript{}, objs: map[int]*mObj{}}
	for k, v := range s.scripts {
		n.scripts[k] = v
	}
	for k, v := range s.objs {
		n.objs[k] = v
	}
	return n
}

func (o *mObj) clone() *mObj {
	n := &mObj{script: o.script, names: o.names, store: map[string]plan.Value{}, budget: o.budget}
	for k, v := range o.store {
		n.store[k] = v
	}
	return n
}

func (s *mState) key() string {
	var sb strings.Builder
	sk := make([]int, 0, len(s.scripts))
	for k := range s.scripts {
		sk = append(sk, k)
	}
	sort.Ints(sk)
	for _, k := range sk {
		fmt.Fprintf(&sb, "S%d%s", k, plan.Vars(s.scripts[k].vars).Key())
	}
	ok := make([]int, 0, len(s.objs))
	for k := range s.objs {
		ok = append(ok, k)
	}
	sort.Ints(ok)
	for _, k := range ok {
		o := s.objs[k]
		names := make([]string, 0, len(o.names))
		for n := range o.names {
			names = append(names, n)
		}
		sort.Strings(names)
		fmt.Fprintf(&sb, "O%d[%s]%s", k, strings.Join(names, ","), plan.Vars(o.store).Key())
	}
	return sb.String()
}

var c15ScriptGlobals = map[string][]string{"const": {"cst"}, "copyx": {"gx"}, "addi": {"gi"}, "adds": {"gs"}, "arr": {"arr", "n"}, "map": {"m"}, "loop": {"acc"}, "loopi": {"acc2"}, "ifblk": {"blk"}, "shadow": {"shw"}, "fshadow": {"sf", "gsf"}, "fnassign": {"gfa", "setg"}, "decl": {"late"}, "fail": {"nf"}}

// effect of one statement on a store. ok=false: the statement fails at run time.
func mApply(st gen.C15Stmt, store map[string]plan.Value) bool {
	get := func(n string) plan.Value {
		if v, ok := store[n]; ok {
			return v
		}
		return plan.Nil()
	}
	switch st.K {
	case "const":
		store["cst"] = plan.Int(st.C)
	case "copyx":
		store["gx"] = get("inx")
	case "addi":
		store["gi"] = plan.Int(get("ini").I + st.C)
	case "adds":
		store["gs"] = plan.Str(get("ins").S + st.S)
	case "inci":
		store["gi"] = plan.Int(get("gi").I + st.C)
	case "bump":
		store["ini"] = plan.Int(get("ini").I + st.C)
	case "arr":
		store["arr"] = plan.Value{T: "array", A: []plan.Value{get("ini"), plan.Int(st.C2)}}
		store["n"] = plan.Int(2)
	case "map":
		store["m"] = plan.Value{T: "map", M: map[string]plan.Value{"k": plan.Int(st.C), "j": get("ins")}}
	case "loop":
		acc := int64(0)
		for acc < st.C {
			acc += 3
		}
		store["acc"] = plan.Int(acc)
	case "loopi":
		store["acc2"] = plan.Int(st.C * (st.C - 1) / 2)
		if st.C <= 0 {
			store["acc2"] = plan.Int(0)
		}
	case "ifblk":
		store["blk"] = plan.Int(0)
		if get("ini").I != 0 {
			store["blk"] = plan.Int(get("ini").I + st.C)
		}
	case "fnassign":
		store["setg"] = plan.Value{T: "obj", S: "compiled-function"}
		store["gfa"] = plan.Int(st.C)
	case "shadow":
		store["shw"] = plan.Int(st.C)
	case "fshadow":
		store["sf"] = plan.Value{T: "obj", S: "compiled-function"}
		store["gsf"] = plan.Str(st.S + "z")
	case "decl":
		store["late"] = plan.Int(st.C)
	case "fail":
		store["nf"] = plan.Int(5)
		return false
	}
	return true
}

// mRunOutcomes lists the possible (store, failed) outcomes of one run.
type mRunOutcome struct {
	store  map[string]plan.Value
	failed bool   // the call returns an error (or panics, for plain Run with a panicking host call)
	why    string // "" complete | "stmt" | "host" | "prefix"
}

func copyStore(m map[string]plan.Value) map[string]plan.Value {
	n := make(map[string]plan.Value, len(m))
	for k, v := range m {
		n[k] = v
	}
	return n
}

// mRun: hostFaultAt = 1-based index of the tick call that fails (0 none);
// anyPrefix: the run may additionally stop after any statement prefix
// (cancellation, allocation budget).
func mRun(sc *gen.C15Script, start map[string]plan.Value, hostFaultAt int, hostNil bool, anyPrefix bool) []mRunOutcome {
	var outs []mRunOutcome
	store := copyStore(start)
	ticks := 0
	if anyPrefix {
		outs = append(outs, mRunOutcome{store: copyStore(store), failed: true, why: "prefix"})
	}
	for _, st := range sc.Stmts {
		if st.K == "tick" {
			ticks++
			if hostFaultAt == ticks && !hostNil {
				outs = append(outs, mRunOutcome{store: store, failed: true, why: "host"})
				return outs
			}
			continue
		}
		// multi-effect statements can be cut in the middle by an asynchronous stop
		if anyPrefix && (st.K == "arr" || st.K == "map" || st.K == "loop" || st.K == "fail" || st.K == "loopi" || st.K == "ifblk" || st.K == "shadow" || st.K == "fshadow" || st.K == "fnassign") {
			for _, part := range mPartials(st, store) {
				outs = append(outs, mRunOutcome{store: part, failed: true, why: "prefix"})
			}
		}
		ok := mApply(st, store)
		if !ok {
			outs = append(outs, mRunOutcome{store: store, failed: true, why: "stmt"})
			return outs
		}
		if anyPrefix {
			outs = append(outs, mRunOutcome{store: copyStore(store), failed: true, why: "prefix"})
		}
	}
	outs = append(outs, mRunOutcome{store: store, failed: false})
	return outs
}

// mPartials: intermediate stores inside a multi-effect statement.
func mPartials(st gen.C15Stmt, store map[string]plan.Value) []map[string]plan.Value {
	get := func(n string) plan.Value {
		if v, ok := store[n]; ok {
			return v
		}
		return plan.Nil()
	}
	var out []map[string]plan.Value
	add := func(f func(m map[string]plan.Value)) {
		m := copyStore(store)
		f(m)
		out = append(out, m)
	}
	switch st.K {
	case "arr":
		add(func(m map[string]plan.Value) {
			m["arr"] = plan.Value{T: "array", A: []plan.Value{get("ini"), plan.Int(st.C)}}
		})
		add(func(m map[string]plan.Value) {
			m["arr"] = plan.Value{T: "array", A: []plan.Value{get("ini"), plan.Int(st.C2)}}
		})
	case "map":
		add(func(m map[string]plan.Value) { m["m"] = plan.Value{T: "map", M: map[string]plan.Value{}} })
		add(func(m map[string]plan.Value) {
			m["m"] = plan.Value{T: "map", M: map[string]plan.Value{"k": plan.Int(st.C)}}
		})
	case "loop":
		for acc := int64(0); acc < st.C+3; acc += 3 {
			a := acc
			add(func(m map[string]plan.Value) { m["acc"] = plan.Int(a) })
		}
	case "fail":
		add(func(m map[string]plan.Value) { m["nf"] = plan.Int(5) })
	case "loopi":
		sum := int64(0)
		add(func(m map[string]plan.Value) { m["acc2"] = plan.Int(0) })
		for i := int64(0); i < st.C; i++ {
			sum += i
			x := sum
			add(func(m map[string]plan.Value) { m["acc2"] = plan.Int(x) })
		}
	case "ifblk":
		add(func(m map[string]plan.Value) { m["blk"] = plan.Int(0) })
	case "fnassign":
		add(func(m map[string]plan.Value) { m["gfa"] = plan.Int(0) })
		add(func(m map[string]plan.Value) {
			m["gfa"] = plan.Int(0)
			m["setg"] = plan.Value{T: "obj", S: "compiled-function"}
		})
	case "shadow":
		add(func(m map[string]plan.Value) { m["shw"] = plan.Int(0) })
	case "fshadow":
		add(func(m map[string]plan.Value) { m["sf"] = plan.Value{T: "obj", S: "compiled-function"} })
	}
	return out
}
