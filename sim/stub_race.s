//go:build race

// This file lets race_on.go declare a body-less function bound by go:linkname.
