package sim

import (
	"context"
	"errors"
	"fmt"
	"time"

	"github.com/d5/tengo/v2"

	"verif/plan"
)

// OpResult is what an API call returned, as plain values.
type OpResult struct {
	Task      int               `json:"task"`
	Idx       int               `json:"idx"`
	Kind      string            `json:"kind"`
	Skip      bool              `json:"skip,omitempty"` // slot empty (an earlier op failed)
	HasErr    bool              `json:"hasErr,omitempty"`
	Err       string            `json:"err,omitempty"`
	ErrIs     map[string]bool   `json:"errIs,omitempty"`
	Panic     string            `json:"panic,omitempty"` // a panic reached the embedding program
	Val       *plan.Value       `json:"val,omitempty"`
	Vars      plan.Vars         `json:"vars,omitempty"`
	Acc       map[string]string `json:"acc,omitempty"`
	Bool      bool              `json:"bool,omitempty"`
	Int       int64             `json:"int,omitempty"`
	Invoke    int               `json:"invoke"`
	Return    int               `json:"return"`
	LockStamp int               `json:"lockStamp,omitempty"`
	Run       *RunInfo          `json:"-"`

	unwound bool
	late    []*tengo.Variable
}

func (r *OpResult) summary() string {
	if r == nil {
		return "nil"
	}
	s := r.Kind
	if r.Skip {
		s += " skip"
	}
	if r.HasErr {
		s += " err=" + r.Err
	}
	if r.Panic != "" {
		s += " panic=" + r.Panic
	}
	if r.unwound {
		s += " unwound"
	}
	return s
}

// Outcome is the comparable part of a result (what the caller can observe).
func (r *OpResult) Outcome() string {
	s := r.Kind
	if r.HasErr {
		s += " err=" + r.Err
	}
	if r.Panic != "" {
		s += " panic=" + r.Panic
	}
	if r.Val != nil {
		s += " val=" + r.Val.Key()
	}
	if r.Vars != nil {
		s += " vars=" + r.Vars.Key()
	}
	if r.Kind == plan.OpIsDefined {
		s += fmt.Sprintf(" bool=%v", r.Bool)
	}
	return s
}

var sentinels = []struct {
	name string
	err  error
}{
	{"alloc", tengo.ErrObjectAllocLimit},
	{"stack", tengo.ErrStackOverflow},
	{"index", tengo.ErrIndexOutOfBounds},
	{"string", tengo.ErrStringLimit},
	{"bytes", tengo.ErrBytesLimit},
	{"injected", ErrInjected},
	{"canceled", context.Canceled},
	{"deadline", context.DeadlineExceeded},
}

func (r *OpResult) setErr(err error) {
	if err == nil {
		return
	}
	r.HasErr = true
	r.Err = err.Error()
	r.ErrIs = map[string]bool{}
	for _, s := range sentinels {
		if errors.Is(err, s.err) {
			r.ErrIs[s.name] = true
		}
	}
}

// setCtxErr also records whether the error is the error of the call's own
// context as that context reports it once the call has returned.
func (r *OpResult) setCtxErr(err error, ctx context.Context) {
	r.setErr(err)
	if err == nil {
		return
	}
	if ce := ctx.Err(); ce != nil && errors.Is(err, ce) {
		r.ErrIs["ctx"] = true
	}
}

func (e *Engine) execOp(ti, i int, op *plan.Op, gid uint64) (res *OpResult) {
	res = &OpResult{Task: ti, Idx: i, Kind: op.Kind}
	defer func() {
		if r := recover(); r != nil {
			if _, ok := r.(unwindSentinel); ok {
				res.unwound = true
				return
			}
			res.Panic = fmt.Sprintf("%T: %v", r, r)
		}
	}()
	e.DoOp(op, res, func(idx int) context.Context { return e.makeCtx(ti, i, gid, idx) })
	return
}

// makeCtx creates the context of a context-aware call on the calling task's own
// goroutine and hands its cancel function to the controller.
func (e *Engine) makeCtx(ti, opIdx int, gid uint64, idx int) context.Context {
	if idx < 0 || idx >= len(e.Plan.Ctxs) {
		return context.Background()
	}
	spec := e.Plan.Ctxs[idx]
	var ctx context.Context
	var cancel context.CancelFunc
	if pe := e.preCtx[ti<<20|opIdx]; pe != nil {
		// created by the controller before this thread existed (race build)
		a := arrival{gid: gid, site: SiteCtxMade, task: ti, opIdx: opIdx, ctxIdx: idx}
		if r := e.park(&a); r.action != actProceed {
			panic(unwindSentinel{})
		}
		return pe.ctx
	}
	switch spec.Kind {
	case "cancel":
		ctx, cancel = context.WithCancel(context.Background())
	case "cancelCause":
		c, cc := context.WithCancelCause(context.Background())
		ctx, cancel = c, func() { cc(errCustomCause) }
	case "merged":
		// a custom Context: values from one (live) context, cancellation from another
		live, stop := context.WithCancel(context.Background())
		inner, ic := context.WithCancel(context.Background())
		ctx, cancel = mergedCtx{Context: live, inner: inner}, func() { ic(); stop() }
		_ = stop
	case "timeoutCause":
		ctx, cancel = context.WithTimeoutCause(context.Background(), time.Duration(spec.DNs), errCustomCause)
	case "timeout":
		ctx, cancel = context.WithTimeout(context.Background(), time.Duration(spec.DNs))
	case "deadlinePast":
		ctx, cancel = context.WithDeadline(context.Background(), time.Now().Add(-time.Second))
	case "preCancelled":
		ctx, cancel = context.WithCancel(context.Background())
		cancel()
	case "childOfCancelled":
		parent, pc := context.WithCancel(context.Background())
		pc()
		ctx, cancel = context.WithCancel(parent)
	case "cancelledPastDeadline":
		// cancelled by its parent; it also carries a deadline, which has passed:
		// its error is and stays context.Canceled
		parent, pc := context.WithCancel(context.Background())
		pc()
		ctx, cancel = context.WithDeadline(parent, time.Now().Add(-time.Second))
	case "timeoutCancelled":
		// carries a deadline far in the future and is cancelled by hand
		ctx, cancel = context.WithTimeout(context.Background(), time.Hour)
	default:
		if spec.Wrap {
			type bgKey struct{}
			return context.WithValue(context.Background(), bgKey{}, 1)
		}
		return context.Background()
	}
	if spec.Wrap {
		type ctxKey struct{}
		ctx = context.WithValue(ctx, ctxKey{}, idx)
	}
	a := arrival{gid: gid, site: SiteCtxMade, task: ti, opIdx: opIdx, ctxIdx: idx, cancel: cancel}
	if r := e.park(&a); r.action != actProceed {
		panic(unwindSentinel{})
	}
	return ctx
}

// DoOp performs one API call. It is used both by simulated task threads and,
// in solo mode, by the controller (set-up, baselines, serial witnesses).
func (e *Engine) DoOp(op *plan.Op, res *OpResult, mkctx func(int) context.Context) {
	obj := func() *tengo.Compiled {
		if op.Obj < 0 || op.Obj >= len(e.Objs) || e.Objs[op.Obj] == nil {
			res.Skip = true
			return nil
		}
		return e.Objs[op.Obj]
	}
	script := func() *tengo.Script {
		if op.Script < 0 || op.Script >= len(e.Scripts) || e.Scripts[op.Script] == nil {
			res.Skip = true
			return nil
		}
		return e.Scripts[op.Script]
	}
	switch op.Kind {
	case plan.OpCompile:
		if s := script(); s != nil {
			c, err := s.Compile()
			res.setErr(err)
			e.Objs[op.Dst] = c
		}
	case plan.OpClone:
		if c := obj(); c != nil {
			e.Objs[op.Dst] = c.Clone()
		}
	case plan.OpSet:
		if c := obj(); c != nil {
			var val interface{}
			if op.Host != "" {
				val = &tengo.UserFunction{Name: op.Name, Value: e.HostFunc(op.Host, op.Name)}
			} else if op.Val != nil {
				val = ToGo(*op.Val)
			}
			res.setErr(c.Set(op.Name, val))
		}
	case plan.OpGet:
		if c := obj(); c != nil {
			v := c.Get(op.Name)
			if op.Raw {
				val := RawValue(v.Object())
				res.Val = &val
			} else if op.Late && !isScalar(v) {
				res.late = []*tengo.Variable{v}
			} else {
				val := FromGo(v.Value())
				res.Val = &val
				res.Acc = accessors(v)
			}
		}
	case plan.OpGetAll:
		if c := obj(); c != nil {
			vars := c.GetAll()
			if op.Raw {
				res.Vars = plan.Vars{}
				for _, v := range vars {
					res.Vars[v.Name()] = RawValue(v.Object())
				}
			} else if op.Late {
				res.late = vars
			} else {
				res.Vars = plan.Vars{}
				for _, v := range vars {
					res.Vars[v.Name()] = FromGo(v.Value())
				}
			}
		}
	case plan.OpIsDefined:
		if c := obj(); c != nil {
			res.Bool = c.IsDefined(op.Name)
		}
	case plan.OpSize:
		if c := obj(); c != nil {
			res.Int = c.Size()
		}
	case plan.OpRun:
		if c := obj(); c != nil {
			res.setErr(c.Run())
		}
	case plan.OpRunCtx:
		if c := obj(); c != nil {
			ctx := mkctx(op.Ctx - 1)
			res.setCtxErr(c.RunContext(ctx), ctx)
		}
	case plan.OpReplMod:
		if c := obj(); c != nil {
			c.ReplaceBuiltinModule(op.Name, e.HostModule(op.Host))
		}
	case plan.OpScriptRun:
		if s := script(); s != nil {
			c, err := s.Run()
			res.setErr(err)
			e.Objs[op.Dst] = c
		}
	case plan.OpScriptRunCtx:
		if s := script(); s != nil {
			ctx := mkctx(op.Ctx - 1)
			c, err := s.RunContext(ctx)
			res.setCtxErr(err, ctx)
			e.Objs[op.Dst] = c
		}
	case plan.OpEval:
		params := map[string]interface{}{}
		if op.Val != nil {
			for k, v := range op.Val.M {
				params[k] = ToGo(v)
			}
		}
		ctx := mkctx(op.Ctx - 1)
		out, err := tengo.Eval(ctx, op.Expr, params)
		res.setCtxErr(err, ctx)
		if err == nil {
			val := FromGo(out)
			res.Val = &val
		}
	case plan.OpAdd:
		if s := script(); s != nil {
			if op.Host != "" {
				res.setErr(s.Add(op.Name, &tengo.UserFunction{Name: op.Name, Value: e.HostFunc(op.Host, op.Name)}))
			} else {
				res.setErr(s.Add(op.Name, ToGo(*op.Val)))
			}
		}
	case plan.OpRemove:
		if s := script(); s != nil {
			res.Bool = s.Remove(op.Name)
		}
	default:
		panic("unknown op kind " + op.Kind)
	}
}

func isScalar(v *tengo.Variable) bool {
	switch v.Object().(type) {
	case *tengo.Array, *tengo.Map, *tengo.ImmutableArray, *tengo.ImmutableMap, *tengo.Error, *tengo.Bytes:
		return false
	}
	return true
}

// accessors evaluates every typed accessor of a Variable (C15's coercion table).
func accessors(v *tengo.Variable) map[string]string {
	m := map[string]string{
		"type":  v.ValueType(),
		"undef": fmt.Sprint(v.IsUndefined()),
		"int":   fmt.Sprint(v.Int()),
		"int64": fmt.Sprint(v.Int64()),
		"float": fmt.Sprint(v.Float()),
		"char":  fmt.Sprint(v.Char()),
		"bool":  fmt.Sprint(v.Bool()),
		"bytes": fmt.Sprintf("%q", v.Bytes()),
		"array": FromGo(arrOrNil(v.Array())).Key(),
		"map":   FromGo(mapOrNil(v.Map())).Key(),
	}
	if isScalarForString(v) {
		m["string"] = v.String()
	}
	if err := v.Error(); err != nil {
		m["error"] = err.Error()
	} else {
		m["error"] = "<nil>"
	}
	return m
}

func isScalarForString(v *tengo.Variable) bool {
	switch o := v.Object().(type) {
	case *tengo.Map:
		return len(o.Value) <= 1
	case *tengo.ImmutableMap:
		return len(o.Value) <= 1
	}
	return true
}

func arrOrNil(a []interface{}) interface{} {
	if a == nil {
		return nil
	}
	return a
}

func mapOrNil(m map[string]interface{}) interface{} {
	if m == nil {
		return nil
	}
	return m
}

// SoloOps runs ops alone on the controller goroutine (hooks inactive) and
// returns their results. Context-aware ops get context.Background().
func (e *Engine) SoloOps(ops []plan.Op) []*OpResult {
	out := make([]*OpResult, 0, len(ops))
	for i := range ops {
		res := &OpResult{Task: -1, Idx: i, Kind: ops[i].Kind}
		func() {
			defer func() {
				if r := recover(); r != nil {
					res.Panic = fmt.Sprintf("%T: %v", r, r)
				}
			}()
			e.DoOp(&ops[i], res, func(int) context.Context { return context.Background() })
		}()
		out = append(out, res)
	}
	return out
}

// ResolveLate dereferences the Variables kept by ops marked Late (to be called
// once nothing can mutate the objects any more).
func ResolveLate(rs []*OpResult) {
	for _, r := range rs {
		if r.late == nil {
			continue
		}
		if r.Kind == plan.OpGet {
			for _, v := range r.late {
				val := FromGo(v.Value())
				r.Val = &val
			}
		} else {
			r.Vars = plan.Vars{}
			for _, v := range r.late {
				r.Vars[v.Name()] = FromGo(v.Value())
			}
		}
		r.late = nil
	}
}

var errCustomCause = errors.New("custom cancellation cause")

// mergedCtx takes its values from the embedded context and its cancellation
// from inner: a legitimate custom Context whose Done/Err are its own.
type mergedCtx struct {
	context.Context
	inner context.Context
}

func (m mergedCtx) Done() <-chan struct{}       { return m.inner.Done() }
func (m mergedCtx) Err() error                  { return m.inner.Err() }
func (m mergedCtx) Deadline() (time.Time, bool) { return m.inner.Deadline() }
