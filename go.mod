module verif

go 1.26

require (
	github.com/anishathalye/porcupine v1.3.0
	github.com/d5/tengo/v2 v2.0.0
)

replace github.com/d5/tengo/v2 => /repo

replace github.com/anishathalye/porcupine => ./third_party/porcupine
