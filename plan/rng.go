package plan

// Rng is the only source of randomness in the whole framework: splitmix64.
// Every choice of an episode (programs, sizes, faults, tape) is drawn from one
// Rng seeded with the episode seed; logging never draws from it.
type Rng struct{ s uint64 }

func NewRng(seed uint64) *Rng { return &Rng{s: seed} }

func mix(z uint64) uint64 {
	z += 0x9e3779b97f4a7c15
	z = (z ^ (z >> 30)) * 0xbf58476d1ce4e5b9
	z = (z ^ (z >> 27)) * 0x94d049bb133111eb
	return z ^ (z >> 31)
}

func (r *Rng) U64() uint64 {
	r.s += 0x9e3779b97f4a7c15
	z := r.s
	z = (z ^ (z >> 30)) * 0xbf58476d1ce4e5b9
	z = (z ^ (z >> 27)) * 0x94d049bb133111eb
	return z ^ (z >> 31)
}

// Intn returns a value in [0,n); n<=0 yields 0.
func (r *Rng) Intn(n int) int {
	if n <= 0 {
		return 0
	}
	return int(r.U64() % uint64(n))
}

// Range returns a value in [lo,hi].
func (r *Rng) Range(lo, hi int) int {
	if hi <= lo {
		return lo
	}
	return lo + r.Intn(hi-lo+1)
}

// Chance is true with probability num/den.
func (r *Rng) Chance(num, den int) bool { return r.Intn(den) < num }

func (r *Rng) Float() float64 { return float64(r.U64()>>11) / float64(1<<53) }

// Geometric draws a run length with the given mean (>=1).
func (r *Rng) Geometric(mean int) int {
	if mean <= 1 {
		return 1
	}
	n := 1
	for n < mean*8 && r.Intn(mean) != 0 {
		n++
	}
	return n
}

func (r *Rng) Pick(xs []string) string { return xs[r.Intn(len(xs))] }

// Fork derives an independent stream (used so that adding draws in one part of
// a generator does not shift every later choice).
func (r *Rng) Fork(label uint64) *Rng { return NewRng(mix(r.U64() ^ mix(label))) }

// EpisodeSeed derives the seed of episode i of property prop from the base seed.
func EpisodeSeed(base uint64, prop string, i uint64) uint64 {
	h := mix(base)
	for _, c := range []byte(prop) {
		h = mix(h ^ uint64(c))
	}
	return mix(h ^ mix(i+1))
}

// GenTape draws a burst-biased schedule tape.
func GenTape(r *Rng, entries, meanBurst int) []TapeEntry {
	t := make([]TapeEntry, entries)
	for i := range t {
		stay := r.Geometric(meanBurst) - 1
		if r.Chance(1, 6) { // occasional single-step ping-pong
			stay = 0
		}
		t[i] = TapeEntry{Stay: uint32(stay), Pick: uint32(r.Intn(1 << 16))}
	}
	return t
}

// Int63n returns a value in [0,n).
func (r *Rng) Int63n(n int64) int64 {
	if n <= 0 {
		return 0
	}
	return int64(r.U64() % uint64(n))
}
