// Package plan defines the self-contained description of one simulated episode.
// A plan is generated from one integer seed before the simulation starts and is
// the replay file: executing a plan is a pure function of the plan and the code.
// This package has no dependency on tengo so that the orchestrator can generate,
// shrink and serialise plans without the instrumented build.
package plan

import (
	"encoding/json"
	"sort"
)

// Value is a JSON-serialisable tagged union for every Go value that crosses
// the host/script boundary in either direction.
//
// T: nil int(go int) int64 float string bool rune byte bytes array map error
//
//	time obj(opaque tengo object, S = its TypeName+String) and the unsupported
//	Go kinds int32 uint float32 struct (only handed *to* tengo, by C15).
type Value struct {
	T string           `json:"t"`
	I int64            `json:"i,omitempty"`
	F float64          `json:"f,omitempty"`
	S string           `json:"s,omitempty"`
	B bool             `json:"b,omitempty"`
	Y []byte           `json:"y,omitempty"`
	A []Value          `json:"a,omitempty"`
	M map[string]Value `json:"m,omitempty"`
}

func Nil() Value            { return Value{T: "nil"} }
func Int(i int64) Value     { return Value{T: "int64", I: i} }
func GoInt(i int64) Value   { return Value{T: "int", I: i} }
func Str(s string) Value    { return Value{T: "string", S: s} }
func Float(f float64) Value { return Value{T: "float", F: f} }
func Bool(b bool) Value     { return Value{T: "bool", B: b} }
func Rune(r rune) Value     { return Value{T: "rune", I: int64(r)} }
func Bytes(b []byte) Value  { return Value{T: "bytes", Y: b} }
func Arr(a ...Value) Value  { return Value{T: "array", A: a} }
func Map(m map[string]Value) Value {
	if m == nil {
		m = map[string]Value{}
	}
	return Value{T: "map", M: m}
}

// Key renders a canonical text form (map keys sorted), used for comparison,
// hashing and event logs.
func (v Value) Key() string {
	b, _ := json.Marshal(v) // encoding/json sorts map keys
	return string(b)
}

func (v Value) Equal(o Value) bool { return v.Key() == o.Key() }

// Vars is a name -> value table (the globals of a compiled object).
type Vars map[string]Value

func (vs Vars) Key() string {
	names := make([]string, 0, len(vs))
	for n := range vs {
		names = append(names, n)
	}
	sort.Strings(names)
	s := "{"
	for _, n := range names {
		s += n + "=" + vs[n].Key() + ";"
	}
	return s + "}"
}

// Config are the knobs randomised per episode.
type Config struct {
	MaxStringLen int   `json:"maxStringLen,omitempty"` // 0 = leave default
	MaxBytesLen  int   `json:"maxBytesLen,omitempty"`
	TickNs       int64 `json:"tickNs"`                 // simulated ns per VM instruction (0 = clock never moves by itself)
	MaxDecisions int   `json:"maxDecisions,omitempty"` // cap; 0 = default
	Race         bool  `json:"race,omitempty"`         // wants the race build (pool drain at switches, report reader)
	NoGC         bool  `json:"noGC,omitempty"`         // no garbage collection while the episode runs: what sync.Pools hold between the runs of one episode must not depend on collector timing
	PoolShare    bool  `json:"poolShare,omitempty"`    // pooled objects may travel between simulated threads: no drains, one P, no GC, yields inside host String methods
}

// Module is a module made available to scripts through the simulator's getter.
type Module struct {
	Name string `json:"name"`
	Src  string `json:"src,omitempty"`  // source module
	Host string `json:"host,omitempty"` // simulator-provided builtin module flavour (see sim/host.go)
	Std  bool   `json:"std,omitempty"`  // a clock/OS-free stdlib module of that name
}

// Input is a variable added to a script before compilation.
type Input struct {
	Name string `json:"name"`
	Val  Value  `json:"val"`
	Host string `json:"host,omitempty"` // instead of Val: a simulator host function of this flavour
}

type Script struct {
	Src       string   `json:"src"`
	Inputs    []Input  `json:"inputs,omitempty"`
	Modules   []string `json:"modules,omitempty"`
	MaxAllocs int64    `json:"maxAllocs,omitempty"` // 0 = unlimited (plan uses n+1 encoding: see AllocLimit)
	HasLimit  bool     `json:"hasLimit,omitempty"`
}

// Op is one API call issued by a simulated embedding-program thread.
type Op struct {
	Kind   string `json:"k"`
	Obj    int    `json:"obj,omitempty"`    // compiled-object slot operated on
	Dst    int    `json:"dst,omitempty"`    // slot receiving a new object (compile, clone, scriptrun*)
	Script int    `json:"script,omitempty"` // script index (compile, scriptrun*, add, remove)
	Name   string `json:"name,omitempty"`
	Val    *Value `json:"val,omitempty"`
	Host   string `json:"host,omitempty"` // set: a host function flavour instead of Val
	Ctx    int    `json:"ctx,omitempty"`  // index+1 into Ctxs; 0 = context.Background()
	Expr   string `json:"expr,omitempty"` // eval
	Late   bool   `json:"late,omitempty"` // get/getall: dereference containers only after the final join
	Raw    bool   `json:"raw,omitempty"`  // get/getall: read Variable.Object() with a bounded, cycle-safe walker instead of Variable.Value()
}

// Op kinds.
const (
	OpCompile      = "compile"      // Script.Compile -> Dst
	OpClone        = "clone"        // Obj.Clone -> Dst
	OpSet          = "set"          // Obj.Set(Name, Val)
	OpGet          = "get"          // Obj.Get(Name) + all accessors
	OpGetAll       = "getall"       // Obj.GetAll
	OpIsDefined    = "isdefined"    // Obj.IsDefined(Name)
	OpRun          = "run"          // Obj.Run
	OpRunCtx       = "runctx"       // Obj.RunContext(Ctx)
	OpSize         = "size"         // Obj.Size
	OpReplMod      = "replmod"      // Obj.ReplaceBuiltinModule(Name, host module flavour Host)
	OpScriptRun    = "scriptrun"    // Script.Run -> Dst
	OpScriptRunCtx = "scriptrunctx" // Script.RunContext(Ctx) -> Dst
	OpEval         = "eval"         // tengo.Eval(Ctx, Expr, params from Val (map))
	OpAdd          = "add"          // Script.Add(Name, Val)
	OpRemove       = "remove"       // Script.Remove(Name)
)

// CtxSpec describes a context handed to a context-aware call and when the
// simulator cancels it.
type CtxSpec struct {
	Kind string `json:"kind"`          // background cancel timeout deadlinePast preCancelled childOfCancelled
	DNs  int64  `json:"dNs,omitempty"` // timeout length (simulated ns), may be <= 0
	// for kind=cancel: the instant. Site is a site name (see sim.SiteName) reached
	// by the caller or the VM thread of the run using this context; Step>=0 means
	// "when the VM of that run is about to execute its Step-th instruction";
	// AfterReturn means after the call has returned.
	Site        string `json:"site,omitempty"`
	Step        int    `json:"step,omitempty"`
	HostCall    int    `json:"hostCall,omitempty"` // k>0: while the k-th host call of the run is blocking
	AfterReturn bool   `json:"afterReturn,omitempty"`
	Wrap        bool   `json:"wrap,omitempty"` // hand the call a context.WithValue wrapper of the context
}

// Fault is an injected fault bound to a task's n-th run (Run counts runs of that task from 0).
type Fault struct {
	Kind  string `json:"kind"`
	Task  int    `json:"task"`
	Run   int    `json:"run"`
	Step  int    `json:"step,omitempty"`  // panicAtStep: instruction index
	Call  int    `json:"call,omitempty"`  // host*: 1-based index of the host call within the run
	Val   string `json:"val,omitempty"`   // panic kind: runtimeError error string ; hostReturn flavour
	DNs   int64  `json:"dNs,omitempty"`   // hostBlock duration
	Site  string `json:"site,omitempty"`  // stallCaller: site at which the caller is held
	Steps int    `json:"steps,omitempty"` // stallCaller: VM steps to hold for (<0: until the VM cannot move)
}

const (
	FaultPanicAtStep = "panicAtStep" // internal VM fault at instruction Step
	FaultHostErr     = "hostErr"     // Call-th host call returns an error
	FaultHostPanic   = "hostPanic"   // Call-th host call panics (Val = kind)
	FaultHostNil     = "hostNil"     // Call-th host call returns (nil, nil)
	FaultHostBlock   = "hostBlock"   // Call-th host call blocks for DNs of simulated time
	FaultStallCaller = "stallCaller" // caller held at Site for Steps VM steps
)

// TapeEntry: make Stay decisions "keep running the current thread", then pick
// enabled[Pick % n]. Entries are consumed only at decisions with >1 enabled event.
type TapeEntry struct {
	Stay uint32 `json:"s"`
	Pick uint32 `json:"p"`
}

// Plan is one episode.
type Plan struct {
	Prop    string      `json:"prop"`
	Shape   string      `json:"shape"` // episode shape within the property (selects oracle details)
	Seed    uint64      `json:"seed"`
	Cfg     Config      `json:"cfg"`
	Modules []Module    `json:"modules,omitempty"`
	Scripts []Script    `json:"scripts,omitempty"`
	Slots   int         `json:"slots,omitempty"` // number of compiled-object slots
	Setup   []Op        `json:"setup,omitempty"` // executed alone before the threads exist
	Tasks   [][]Op      `json:"tasks,omitempty"`
	Ctxs    []CtxSpec   `json:"ctxs,omitempty"`
	Faults  []Fault     `json:"faults,omitempty"`
	Tape    []TapeEntry `json:"tape,omitempty"`
	// free-form parameters for single-threaded sweep shapes (C06, C14)
	Params map[string]int64  `json:"params,omitempty"`
	Notes  map[string]string `json:"notes,omitempty"` // generator bookkeeping (which idioms were used) — never read by oracles
	Meta   json.RawMessage   `json:"meta,omitempty"`  // property-specific structured data (e.g. C14 marker table)
}

func (p *Plan) JSON() []byte {
	b, err := json.Marshal(p)
	if err != nil {
		panic(err)
	}
	return b
}

func Parse(b []byte) (*Plan, error) {
	p := &Plan{}
	if err := json.Unmarshal(b, p); err != nil {
		return nil, err
	}
	return p, nil
}

// Clone deep-copies a plan (through JSON; plans are small).
func (p *Plan) Clone() *Plan {
	q, err := Parse(p.JSON())
	if err != nil {
		panic(err)
	}
	return q
}
