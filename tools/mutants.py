#!/usr/bin/env python3
"""Own sensitivity mutants: each is a textual edit of one file of d5/tengo, applied to a scratch
worktree (never to /repo), checked for compiling + passing the pinned suite, and run against the
property's check through VERIF_REPO. Usage: tools/mutants.py [id ...]   (results: tools/mutants.log)"""
import subprocess, sys, os, tempfile, json, time

M = [
 # id, property, file, old, new, episodes (0 = quick default)
 ("m01-eval-ignores-ctx", "C07", "eval.go", "compiled, err := script.RunContext(ctx)", "compiled, err := script.RunContext(context.Background())", 0),
 ("m02-script-runcontext-plain-run", "C07", "script.go", "\terr = compiled.RunContext(ctx)\n\treturn", "\terr = compiled.Run()\n\treturn", 0),
 ("m03-timeout-returns-without-drain", "C07", "script.go", "\t\tv.Abort()\n\t\tverifAt(verifRunCtxAborted, c, v)\n\t\t<-ch\n", "\t\tv.Abort()\n\t\tverifAt(verifRunCtxAborted, c, v)\n\t\tif ctx.Err() != context.DeadlineExceeded {\n\t\t\t<-ch\n\t\t}\n", 0),
 ("m04-cancel-branch-returns-run-error", "C07", "script.go", "\t\t<-ch\n\t\terr = ctx.Err()", "\t\tif err = <-ch; err == nil {\n\t\t\terr = ctx.Err()\n\t\t}", 0),
 ("m05-replace-module-no-copy-on-write", "C08", "script.go", "\tif !c.fullClone {", "\tif false && !c.fullClone {", 1500),
 ("m06-isdefined-no-lock", "C08", "script.go", "func (c *Compiled) IsDefined(name string) bool {\n\tverifAt(verifLockR, c, nil)\n\tc.lock.RLock()\n\tdefer c.lock.RUnlock()\n", "func (c *Compiled) IsDefined(name string) bool {\n\tverifAt(verifLockR, c, nil)\n", 1500),
 ("m07-int-add-zero-returns-operand-then-mutates", "C08", "objects.go", "\t\tcase token.Add:\n\t\t\tr := o.Value + rhs.Value\n\t\t\tif r == o.Value {\n\t\t\t\treturn o, nil\n\t\t\t}\n\t\t\treturn &Int{Value: r}, nil", "\t\tcase token.Add:\n\t\t\to.Value += rhs.Value\n\t\t\treturn o, nil", 1500),
 ("m08-bytes-n-limit-check-removed", "C06", "builtins.go", "\t\tif n.Value > int64(MaxBytesLen) {", "\t\tif false && n.Value > int64(MaxBytesLen) {", 0),
 ("m09-string-concat-check-off-by-one", "C06", "objects.go", "\t\t\tif len(o.Value)+len(rhs.Value) > MaxStringLen {", "\t\t\tif len(o.Value)+len(rhs.Value) > MaxStringLen+1 {", 0),
 ("m10-closure-alloc-not-counted", "C06", "vm.go", "\t\t\t\tFree:          free,\n\t\t\t}\n\t\t\tv.allocs--\n\t\t\tif v.allocs == 0 {\n\t\t\t\tv.err = ErrObjectAllocLimit\n\t\t\t\treturn\n\t\t\t}\n", "\t\t\t\tFree:          free,\n\t\t\t}\n", 0),
 ("m11-bytes-limit-error-rewrapped", "C06", "objects.go", "\t\t\tif len(o.Value)+len(rhs.Value) > MaxBytesLen {\n\t\t\t\treturn nil, ErrBytesLimit\n", "\t\t\tif len(o.Value)+len(rhs.Value) > MaxBytesLen {\n\t\t\t\treturn nil, fmt.Errorf(\"%v\", ErrBytesLimit)\n", 0),
 ("m12-frame-ip-saved-after-reset", "C14", "vm.go", "\t\t\t\tv.curFrame.ip = v.ip // store current ip before call", "\t\t\t\tv.curFrame.ip = v.ip - 2 // store current ip before call", 0),
 ("m13-index-error-rewrapped-in-indexassign", "C14", "vm.go", "\tif err := dst.IndexSet(selectors[0], src); err != nil {\n", "\tif err := dst.IndexSet(selectors[0], src); err != nil {\n\t\tif err == ErrIndexOutOfBounds {\n\t\t\treturn fmt.Errorf(\"%v\", err)\n\t\t}\n", 0),
 ("m14-trace-reversed", "C14", "vm.go", "\t\t\terr = fmt.Errorf(\"%w\\n\\tat %s\", err, filePos)\n\t\t}", "\t\t\terr = fmt.Errorf(\"%w\\n\\tat %s\", err, filePos)\n\t\t\tif v.framesIndex == 3 {\n\t\t\t\tv.framesIndex--\n\t\t\t}\n\t\t}", 0),
 ("m15-set-stores-undefined-on-conversion-error", "C15", "script.go", "\tobj, err := FromInterface(value)\n\tif err != nil {\n\t\treturn err\n\t}\n\tidx, ok := c.globalIndexes[name]", "\tobj, err := FromInterface(value)\n\tif err != nil {\n\t\tif idx, ok := c.globalIndexes[name]; ok {\n\t\t\tc.globals[idx] = UndefinedValue\n\t\t}\n\t\treturn err\n\t}\n\tidx, ok := c.globalIndexes[name]", 0),
 ("m16-tointerface-bytes-as-string", "C15", "tengo.go", "\tcase *Bytes:\n\t\tres = o.Value\n", "\tcase *Bytes:\n\t\tres = string(o.Value)\n", 0),
 ("m17-float-accessor-accepts-char", "C15", "tengo.go", "\tcase *Float:\n\t\tv = o.Value\n\t\tok = true\n\tcase *String:\n\t\tc, err := strconv.ParseFloat(o.Value, 64)", "\tcase *Float:\n\t\tv = o.Value\n\t\tok = true\n\tcase *Char:\n\t\tv = float64(o.Value)\n\t\tok = true\n\tcase *String:\n\t\tc, err := strconv.ParseFloat(o.Value, 64)", 0),
 ("m18-script-remove-keeps-entry-when-two", "C15", "script.go", "\tdelete(s.variables, name)\n\treturn true", "\tif len(s.variables) != 6 {\n\t\tdelete(s.variables, name)\n\t}\n\treturn true", 0),
 ("m19-recover-drops-runtime-errors", "C05", "script.go", "\t\t\t\tcase error:\n\t\t\t\t\tch <- e\n", "\t\t\t\tcase error:\n\t\t\t\t\tif _, rt := e.(interface{ RuntimeError() }); rt && len(e.Error()) > 60 {\n\t\t\t\t\t\tpanic(e)\n\t\t\t\t\t}\n\t\t\t\t\tch <- e\n", 6000),
 ("m20-map-iterator-value-nil-deref", "C05", "iterator.go", "func (i *MapIterator) Value() Object {\n", "func (i *MapIterator) Value() Object {\n\tif v := i.v[i.k[i.i-1]]; v != nil && v.TypeName() == \"\" {\n\t\treturn nil\n\t}\n", 3000),
]

ENV = dict(os.environ, GOFLAGS="-mod=mod", GOPROXY="off", GOSUMDB="off")

def sh(cmd, **kw):
    return subprocess.run(cmd, shell=True, capture_output=True, text=True, env=ENV, **kw)

def run(m):
    mid, prop, fn, old, new, n = m
    wt = tempfile.mkdtemp(prefix="mut-", dir="/tmp")
    os.rmdir(wt)
    r = sh(f"git -C /repo worktree add -q --detach {wt} HEAD")
    if r.returncode: return mid, "worktree failed " + r.stderr
    try:
        p = os.path.join(wt, fn)
        s = open(p).read()
        if s.count(old) != 1:
            return mid, f"EDIT DOES NOT APPLY (matches: {s.count(old)})"
        open(p, "w").write(s.replace(old, new))
        r = sh("go build ./...", cwd=wt)
        if r.returncode: return mid, "DOES NOT COMPILE: " + r.stderr[-300:]
        r = sh("go test -mod=mod -vet=off -count=1 ./...", cwd=wt)
        suite = "suite passes" if r.returncode == 0 else "SUITE FAILS"
        args = f"--episodes {n}" if n else ""
        r = subprocess.run(f"./bin/verif check {prop} {args}", shell=True, capture_output=True, text=True, cwd="/verif",
                           env=dict(ENV, VERIF_REPO=wt, GOTOOLCHAIN="local"))
        lines = [l for l in r.stdout.splitlines() if l.startswith("VIOLATION") or l.startswith("  class") or l.startswith("OK prop")]
        verdict = {0: "MISSED", 1: "CAUGHT", 2: "EXIT2"}.get(r.returncode, str(r.returncode))
        detail = " | ".join(l.strip()[:160] for l in lines[:3])
        if r.returncode == 2:
            detail += " " + r.stderr[-300:].replace("\n", " ")
        return mid, f"{prop} {suite}; {verdict}; {detail}"
    finally:
        sh(f"git -C /repo worktree remove --force {wt}")

if __name__ == "__main__":
    want = set(sys.argv[1:])
    with open("/verif/tools/mutants.log", "a") as log:
        for m in M:
            if want and m[0] not in want: continue
            t = time.time()
            mid, res = run(m)
            line = f"{mid}: {res} [{time.time()-t:.0f}s]"
            print(line, flush=True)
            log.write(line + "\n"); log.flush()
    for f in os.listdir("/verif/replays"):
        os.remove(os.path.join("/verif/replays", f))
