#!/bin/bash
# Re-runs every stored seeded change against the current machinery (scratch worktrees, VERIF_REPO).
# usage: tools/regress_seeds.sh [pattern]    -> tools/regress_seeds.log
cd /verif
LOG=tools/regress_seeds.log
: > $LOG
for d in seeded/s*${1:-}*/; do
  id=$(basename $d)
  prop=$(python3 -c "import json;print(json.load(open('$d/meta.json'))['property'])")
  n=0
  case $prop in C08) n=1500;; C05|C07) n=8000;; esac
  out=$(timeout 3000 tools/try_seed.sh $prop $d/patch.diff $n 2>&1 | grep -v KNOWN | grep "check exit\|  class\|PATCH\|COMPILE\|SUITE" | cut -c1-200 | tr '\n' ' ')
  echo "$id [$prop]: $out" | tee -a $LOG
  rm -f replays/*.json
done
