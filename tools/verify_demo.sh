#!/bin/bash
# usage: tools/verify_demo.sh <seed-dir> [extra go test flags]
# Confirms, in a scratch worktree, that the demonstration fails with the change and passes without it.
set -u
D=$(readlink -f "$1"); shift
export GOFLAGS=-mod=mod GOPROXY=off GOSUMDB=off
WT=/tmp/verifydemo-$$
git -C /repo worktree add -q --detach "$WT" HEAD || exit 2
trap 'git -C /repo worktree remove --force "$WT" >/dev/null 2>&1; rm -rf "$WT"' EXIT
for f in "$D"/*_test.go "$D"/*_test.go.txt; do [ -f "$f" ] && cp "$f" "$WT/$(basename "${f%.txt}")"; done
RUN=$(grep -ho "^func Test[A-Za-z0-9_]*" "$D"/*_test.go* | sed 's/func //' | paste -sd'|')
echo "demo tests: $RUN"
(cd "$WT" && timeout 600 go test -mod=mod -vet=off -count=1 "$@" -run "^($RUN)\$" . >/tmp/vd-$$.a 2>&1); A=$?
git -C "$WT" apply "$D/patch.diff" || { echo "patch does not apply"; exit 2; }
(cd "$WT" && timeout 600 go test -mod=mod -vet=off -count=1 "$@" -run "^($RUN)\$" . >/tmp/vd-$$.b 2>&1); B=$?
echo "without change: exit $A ($(tail -1 /tmp/vd-$$.a))"
echo "with change:    exit $B ($(grep -m2 -- '--- FAIL\|panic\|DATA RACE' /tmp/vd-$$.b | tr '\n' ' '))"
rm -f /tmp/vd-$$.a /tmp/vd-$$.b
[ $A -eq 0 ] && [ $B -ne 0 ] && echo "DEMO CONFIRMED" || echo "DEMO NOT CONFIRMED"
