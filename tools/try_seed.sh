#!/bin/bash
# usage: tools/try_seed.sh <PROP> <patch.diff> [episodes] [tier]
# Applies a seeded change to a scratch worktree of /repo (outside /repo and /verif), checks that
# it compiles and that the pinned test suite still passes, runs the property's check against
# it (VERIF_REPO), prints the verdict and removes the worktree again.
set -u
PROP=$1; PATCH=$(readlink -f "$2"); N=${3:-0}; TIER=${4:-quick}
export GOFLAGS=-mod=mod GOPROXY=off GOSUMDB=off
WT=/tmp/tryseed-$$
git -C /repo worktree add -q --detach "$WT" HEAD || exit 2
cleanup() { git -C /repo worktree remove --force "$WT" >/dev/null 2>&1; rm -rf "$WT"; }
trap cleanup EXIT
if ! git -C "$WT" apply "$PATCH"; then echo "PATCH DOES NOT APPLY"; exit 2; fi
if ! (cd "$WT" && go build ./... ); then echo "DOES NOT COMPILE"; exit 2; fi
if (cd "$WT" && go test -mod=mod -vet=off -count=1 ./... >/tmp/tryseed-$$.log 2>&1); then echo "SUITE: passes with the change"; else echo "SUITE: FAILS with the change"; tail -5 /tmp/tryseed-$$.log; fi
rm -f /tmp/tryseed-$$.log
cd /verif
ARGS="--tier $TIER"; [ "$N" != 0 ] && ARGS="$ARGS --episodes $N"
VERIF_REPO="$WT" GOTOOLCHAIN=local ${VERIF_BIN:-./bin/verif} check "$PROP" $ARGS 2>&1 | grep -v "^   \|^  verif\|^  github\|^  testing\|^  runtime\|^$" | grep "VIOLATION\|  class\|OK prop\|exit 2\|INFRA\|NONDET\|episodes in\|KNOWN" | cut -c1-600
echo "check exit: ${PIPESTATUS[0]}"
find /verif/build -name "*alt-*" -mmin +120 -delete 2>/dev/null
