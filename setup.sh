#!/bin/bash
# Builds the orchestrator offline from files on disk (Go 1.26.8, vendored porcupine).
set -e
cd "$(dirname "$0")"
export GOFLAGS=-mod=mod GOPROXY=off GOSUMDB=off GOTOOLCHAIN=local
cp /repo/go.sum go.sum 2>/dev/null || true
mkdir -p bin build evidence replays
go1.26.8 build -o bin/verif ./cmd/verif
echo "built bin/verif"
