// Package gen turns one episode seed into an episode plan. It has no
// dependency on tengo: plans are data.
package gen

import (
	"fmt"
	"strings"

	"verif/plan"
)

// Generate builds the plan of episode `seed` for a property. tier may bias
// sizes ("quick" / "thorough") but never the meaning of a seed within a tier.
func Generate(prop string, seed uint64, tier string) *plan.Plan {
	r := plan.NewRng(seed)
	var p *plan.Plan
	switch prop {
	case "C07":
		p = genC07(r, tier)
	case "C05":
		p = genC05(r)
	case "C08":
		p = genC08(r)
	case "C08P":
		p = genC08Pool(r)
	case "C06":
		p = genC06(r)
	case "C14":
		p = genC14(r)
	case "C15":
		p = genC15(r)
	default:
		panic("gen: unknown property " + prop)
	}
	p.Prop = prop
	p.Seed = seed
	return p
}

func note(p *plan.Plan, k, v string) {
	if p.Notes == nil {
		p.Notes = map[string]string{}
	}
	p.Notes[k] = v
}

func param(p *plan.Plan, k string, v int64) {
	if p.Params == nil {
		p.Params = map[string]int64{}
	}
	p.Params[k] = v
}

func lines(ls ...string) string { return strings.Join(ls, "\n") + "\n" }

func itoa(i int) string { return fmt.Sprint(i) }

func vp(v plan.Value) *plan.Value { return &v }
