package gen

import (
	"verif/plan"
)

// c07prog is a program of the cancellation family. Every program reads the
// inputs `lim` and `k`; with lim < 0 the ones marked inf never terminate.
type c07prog struct {
	name string
	src  string
	inf  bool   // does not terminate when lim < 0
	host bool   // calls tick()
	mods bool   // imports the stdlib source module enum
	expr string // expression form for tengo.Eval (same meaning, result instead of globals)
}

func c07Programs(r *plan.Rng) []c07prog {
	n := itoa(r.Range(1, 9))
	return []c07prog{
		{name: "countLoop", inf: true, src: lines(
			"out := 0",
			"for i := 0; lim < 0 || i < lim; i++ {",
			"	out += i * k",
			"}",
			"done := true"),
			expr: "func() { out := 0; for i := 0; lim < 0 || i < lim; i++ { out += i * k }; return out }()"},
		{name: "bareFor", inf: true, src: lines(
			"out := 1",
			"if lim < 0 {",
			"	for {",
			"	}",
			"}",
			"out = lim + k"),
			expr: "func() { if lim < 0 { for { } }; return lim + k }()"},
		{name: "forTrueBody", inf: true, src: lines(
			"out := 0",
			"for lim < 0 || out < lim {",
			"	out = out + 1",
			"	if out % "+n+" == 0 {",
			"		continue",
			"	}",
			"	tmp := [out, k]",
			"}")},
		{name: "tailRec", inf: true, src: lines(
			"f := func(n) {",
			"	if lim >= 0 && n >= lim {",
			"		return n",
			"	}",
			"	return f(n+1)",
			"}",
			"out := f(0)"),
			expr: "func() { f := 0; f = func(n) { if lim >= 0 && n >= lim { return n }; return f(n+1) }; return f(0) }()"},
		{name: "tailRecAnd", inf: true, src: lines(
			"f := func(n) {",
			"	return (lim < 0 || n < lim) && f(n+1)",
			"}",
			"out := f(0)")},
		{name: "tailRecOr", inf: true, src: lines(
			"f := func(n) {",
			"	return (lim >= 0 && n >= lim) || f(n+1)",
			"}",
			"out := f(0)")},
		{name: "tailRecStmt", inf: true, src: lines(
			"cnt := 0",
			"f := func(n) {",
			"	cnt = n",
			"	if lim >= 0 && n >= lim {",
			"		return",
			"	}",
			"	f(n+1)",
			"}",
			"f(0)",
			"out := cnt")},
		{name: "tailRecCaptured", inf: true, src: lines(
			"mk := func(step) {",
			"	f := 0",
			"	f = func(n, s) {",
			"		if lim >= 0 && n >= lim {",
			"			return s + step",
			"		}",
			"		return f(n+1, s+step)",
			"	}",
			"	return f",
			"}",
			"out := mk(k)(0, 0)")},
		{name: "deepRec", inf: false, src: lines( // lim<0: ends in a stack error by itself
			"f := func(n) {",
			"	if lim >= 0 && n >= lim {",
			"		return 0",
			"	}",
			"	return 1 + f(n+1)",
			"}",
			"out := f(0)")},
		{name: "mutualRec", inf: false, src: lines(
			"a := 0",
			"b := func(n) {",
			"	if lim >= 0 && n >= lim {",
			"		return n",
			"	}",
			"	return a(n+1) + 0",
			"}",
			"a = func(n) {",
			"	return b(n+1) + 0",
			"}",
			"out := a(0)")},
		{name: "forIn", inf: true, src: lines(
			"out := 0",
			"arr := [1, 2, 3, "+n+"]",
			"for lim < 0 || out < lim {",
			"	for x in arr {",
			"		out += x",
			"	}",
			"}")},
		{name: "forInString", inf: true, src: lines(
			"out := 0",
			"for lim < 0 || out < lim {",
			"	for i, c in \"héllo wörld\" {",
			"		out += i",
			"	}",
			"}")},
		{name: "forInMap", inf: true, src: lines(
			"out := 0",
			"m := {a: 1, b: 2, c: "+n+"}",
			"for lim < 0 || out < lim {",
			"	for key, v in m {",
			"		out += v",
			"	}",
			"}")},
		{name: "forInBytes", inf: true, src: lines(
			"out := 0",
			"for lim < 0 || out < lim {",
			"	for i, c in bytes(\"abcdef\") {",
			"		out += 1",
			"	}",
			"}")},
		{name: "forInImmutable", inf: true, src: lines(
			"out := 0",
			"ia := immutable([1, 2, 3])",
			"im := immutable({a: 1, b: 2})",
			"for lim < 0 || out < lim {",
			"	for x in ia {",
			"		out += x",
			"	}",
			"	for key, v in im {",
			"		out += v",
			"	}",
			"}")},
		{name: "forInRange", inf: true, src: lines(
			"out := 0",
			"for lim < 0 || out < lim {",
			"	for x in range(0, "+n+") {",
			"		out += 1",
			"	}",
			"	out += 1",
			"}")},
		{name: "enumCallback", inf: true, mods: true, src: lines(
			"enum := import(\"enum\")",
			"out := 0",
			"for lim < 0 || out < lim {",
			"	enum.each([1, 2, "+n+"], func(i, v) {",
			"		out += v",
			"	})",
			"}")},
		{name: "parkAfterIf", inf: true, src: lines(
			"out := 0",
			"park := func() {",
			"	if lim >= 0 {",
			"		return lim + k",
			"	}",
			"	for {",
			"	}",
			"}",
			"out = park()")},
		{name: "parkAfterLoop", inf: true, src: lines(
			"out := 0",
			"park2 := func() {",
			"	if lim >= 0 {",
			"		return lim",
			"	}",
			"	for i := 0; i < 2; i++ {",
			"		out += i",
			"	}",
			"	for {",
			"		continue",
			"	}",
			"}",
			"out = park2()")},
		{name: "parkAfterForIn", inf: true, src: lines(
			"out := 0",
			"park3 := func() {",
			"	if lim >= 0 {",
			"		return lim",
			"	}",
			"	for x in [1, 2] {",
			"		out += x",
			"	}",
			"	for {",
			"	}",
			"}",
			"out = park3()")},
		{name: "parkTopLevel", inf: true, src: lines(
			"out := k",
			"if lim < 0 {",
			"	if out < 0 {",
			"		out = 1",
			"	}",
			"	for {",
			"	}",
			"}",
			"out = lim")},
		{name: "whileCondJump", inf: true, src: lines(
			"out := 0",
			"go_on := true",
			"for go_on {",
			"	out += 1",
			"	go_on = lim < 0 || out < lim",
			"}")},
		{name: "hostTicks", inf: true, host: true, src: lines(
			"out := 0",
			"for i := 0; lim < 0 || i < lim; i++ {",
			"	tick(i)",
			"	out += k",
			"}")},
		{name: "hostTicksFew", inf: false, host: true, src: lines(
			"out := 0",
			"tick(1)",
			"out = 1",
			"tick(2)",
			"out = 2",
			"tick(3)",
			"out = 3 + k")},
		{name: "selfFailDiv", inf: false, src: lines(
			"out := 0",
			"for i := 0; i < "+n+"; i++ {",
			"	out += i",
			"}",
			"bad := out / (k - k)",
			"after := 1")},
		{name: "selfFailCall", inf: false, src: lines(
			"out := k",
			"nf := 5",
			"if lim != 12345 {",
			"	nf(1)",
			"}",
			"after := 1")},
		{name: "mapGrow", inf: true, src: lines(
			"m := {}",
			"out := 0",
			"for i := 0; lim < 0 || i < lim; i++ {",
			"	m[string(i % 5)] = i",
			"	out = len(m)",
			"}")},
		{name: "closures", inf: true, src: lines(
			"fs := []",
			"out := 0",
			"for i := 0; lim < 0 || i < lim; i++ {",
			"	fs = [func() { return i + k }]",
			"	out += fs[0]()",
			"}")},
		{name: "straight", inf: false, src: lines(
			"out := k + 1",
			"s := \"abc\" + string(lim)",
			"arr := [out, s]")},
	}
}

var c07CallerSitesEarly = []string{"LockW", "RunCtxEnter", "RunCtxSpawned", "VMGoStart", "VMRunEnter"}
var c07SitesLate = []string{"VMRunExit", "VMGoEnd", "RunCtxReturn"}

func genC07(r *plan.Rng, tier string) *plan.Plan {
	p := &plan.Plan{}
	progs := c07Programs(r.Fork(1))
	pr := progs[r.Intn(len(progs))]
	shape := "compiled"
	switch x := r.Intn(10); {
	case x == 0 && pr.expr != "":
		shape = "eval"
	case x <= 2:
		shape = "script"
	}
	p.Shape = shape
	note(p, "prog", pr.name)

	// inputs: A for the run under test, B for the re-run (always terminating)
	limA := int64(r.Range(0, 40))
	if pr.inf && r.Chance(2, 3) {
		limA = -1
	} else if !pr.inf && r.Chance(1, 2) {
		limA = -1
	}
	if r.Chance(1, 10) {
		limA = int64(r.Range(100, 600))
	}
	limB := int64(r.Range(0, 30))
	kA, kB := int64(r.Range(1, 5)), int64(r.Range(1, 5))
	termA := !(pr.inf && limA < 0)
	if termA {
		param(p, "termA", 1)
	}
	param(p, "limA", limA)
	param(p, "limB", limB)
	param(p, "kA", kA)
	param(p, "kB", kB)

	p.Cfg.TickNs = 1000
	p.Cfg.MaxDecisions = 40000

	// the context of the run under test
	var cs plan.CtxSpec
	for {
		cs = c07Ctx(r, pr, termA)
		if cs.Kind != "" {
			break
		}
	}
	if r.Fork(11).Chance(1, 5) {
		cs.Wrap = true
	}
	// the same instants with contexts that carry a cause, or a custom Context
	if rk := r.Fork(12); rk.Chance(1, 6) {
		switch cs.Kind {
		case "cancel":
			cs.Kind = []string{"cancelCause", "merged", "timeoutCancelled"}[rk.Intn(3)]
		case "timeout":
			cs.Kind = "timeoutCause"
		case "preCancelled", "childOfCancelled":
			cs.Kind = "cancelledPastDeadline"
		}
	}
	p.Ctxs = []plan.CtxSpec{cs}
	note(p, "ctx", cs.Kind)

	// the same program at another place in the bytecode: a number of unrelated
	// globals and constants in front of it moves every global index, constant
	// index and jump offset of the program proper
	src := pr.src
	if rp := r.Fork(14); rp.Chance(2, 3) {
		n := rp.Intn(70)
		var pad []string
		for i := 0; i < n; i++ {
			pad = append(pad, "pd"+itoa(i)+" := "+itoa(1000+i))
		}
		src = lines(pad...) + src
		param(p, "pad", int64(n))
	}
	sc := plan.Script{Src: src, Inputs: []plan.Input{{Name: "lim", Val: plan.GoInt(limA)}, {Name: "k", Val: plan.GoInt(kA)}}}
	if pr.host {
		sc.Inputs = append(sc.Inputs, plan.Input{Name: "tick", Host: "tick"})
	}
	if pr.mods {
		sc.Modules = []string{"enum"}
		p.Modules = []plan.Module{{Name: "enum", Std: true}}
	}
	p.Scripts = []plan.Script{sc}
	p.Slots = 2

	setA := []plan.Op{{Kind: plan.OpSet, Obj: 1, Name: "lim", Val: vp(plan.GoInt(limA))}, {Kind: plan.OpSet, Obj: 1, Name: "k", Val: vp(plan.GoInt(kA))}}
	setB := []plan.Op{{Kind: plan.OpSet, Obj: 1, Name: "lim", Val: vp(plan.GoInt(limB))}, {Kind: plan.OpSet, Obj: 1, Name: "k", Val: vp(plan.Int(kB))}}
	var ops []plan.Op
	switch shape {
	case "compiled":
		ops = append(ops, plan.Op{Kind: plan.OpCompile, Script: 0, Dst: 1})
		ops = append(ops, setA...)
		ops = append(ops, plan.Op{Kind: plan.OpRunCtx, Obj: 1, Ctx: 1}, plan.Op{Kind: plan.OpGetAll, Obj: 1})
		ops = append(ops, setB...)
		ops = append(ops, plan.Op{Kind: plan.OpRunCtx, Obj: 1}, plan.Op{Kind: plan.OpGetAll, Obj: 1})
	case "script":
		ops = append(ops, plan.Op{Kind: plan.OpScriptRunCtx, Script: 0, Dst: 1, Ctx: 1}, plan.Op{Kind: plan.OpGetAll, Obj: 1})
		ops = append(ops, setB...)
		ops = append(ops, plan.Op{Kind: plan.OpRunCtx, Obj: 1}, plan.Op{Kind: plan.OpGetAll, Obj: 1})
	case "eval":
		pa := plan.Map(map[string]plan.Value{"lim": plan.GoInt(limA), "k": plan.GoInt(kA)})
		pb := plan.Map(map[string]plan.Value{"lim": plan.GoInt(limB), "k": plan.GoInt(kB)})
		ops = append(ops, plan.Op{Kind: plan.OpEval, Expr: pr.expr, Val: &pa, Ctx: 1})
		ops = append(ops, plan.Op{Kind: plan.OpEval, Expr: pr.expr, Val: &pb})
	}
	p.Tasks = [][]plan.Op{ops}

	// faults: a slow caller after it has seen the cancellation / called Abort
	if r.Chance(1, 2) {
		site := "RunCtxCancelSeen"
		if r.Chance(1, 2) {
			site = "RunCtxAborted"
		}
		steps := []int{0, 1, 3, 17, 200}[r.Intn(5)]
		if termA && r.Chance(1, 2) {
			steps = -1 // until the VM has finished on its own
		}
		p.Faults = append(p.Faults, plan.Fault{Kind: plan.FaultStallCaller, Task: 0, Run: 0, Site: site, Steps: steps})
	}
	if pr.host && r.Chance(2, 3) {
		call := r.Range(1, 4)
		p.Faults = append(p.Faults, plan.Fault{Kind: plan.FaultHostBlock, Task: 0, Run: 0, Call: call, DNs: int64(r.Range(1, 5000)) * 1000})
	}
	p.Tape = plan.GenTape(r.Fork(2), 48, []int{1, 2, 5, 20, 100}[r.Intn(5)])
	// enumeration shape: every cancellation instant x every stall variant of a short program
	den := 60
	if tier == "thorough" {
		den = 25
	}
	if shape == "compiled" && termA && limA >= 0 && limA <= 8 && !pr.host && r.Fork(9).Chance(1, den) {
		param(p, "enum", 1)
		p.Shape = "compiled"
		note(p, "enum", "1")
	}
	return p
}

func c07Ctx(r *plan.Rng, pr c07prog, termA bool) plan.CtxSpec {
	kStep := func() int {
		switch r.Intn(4) {
		case 0:
			return r.Range(0, 6)
		case 1:
			return r.Range(0, 40)
		case 2:
			return r.Range(0, 400)
		}
		return r.Range(0, 3000)
	}
	switch x := r.Intn(100); {
	case x < 8:
		if !termA {
			return plan.CtxSpec{}
		}
		if r.Chance(1, 2) {
			return plan.CtxSpec{Kind: "background"}
		}
		return plan.CtxSpec{Kind: "cancel", Step: 1 << 30} // cancellable, never cancelled
	case x < 15:
		return plan.CtxSpec{Kind: "preCancelled"}
	case x < 19:
		return plan.CtxSpec{Kind: "childOfCancelled"}
	case x < 23:
		return plan.CtxSpec{Kind: "deadlinePast"}
	case x < 43:
		d := int64(kStep())*1000 + 500 // half-tick offsets: never ties with a step boundary
		if r.Chance(1, 6) {
			d = -int64(r.Intn(3)) * 1000
		}
		return plan.CtxSpec{Kind: "timeout", DNs: d}
	case x < 63:
		sites := c07CallerSitesEarly
		if termA {
			sites = append(append([]string{}, sites...), c07SitesLate...)
		}
		return plan.CtxSpec{Kind: "cancel", Site: sites[r.Intn(len(sites))]}
	case x < 90:
		return plan.CtxSpec{Kind: "cancel", Step: kStep()}
	case x < 96:
		if !pr.host {
			return plan.CtxSpec{}
		}
		return plan.CtxSpec{Kind: "cancel", HostCall: r.Range(1, 4)}
	default:
		if !termA {
			return plan.CtxSpec{}
		}
		return plan.CtxSpec{Kind: "cancel", AfterReturn: true}
	}
}
