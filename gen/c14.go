package gen

import (
	"encoding/json"
	"strings"

	"verif/plan"
)

// C14 workload: call trees with marker sites. Every statement is on its own
// line; every user function is called from exactly one call site (recursive
// ones additionally from one recursive site, with an explicit depth counter and
// never in tail position). Marker calls mk.mark(<id>, <depth>) go to a
// simulator host module, so that "fail the k-th host call" has a failing
// statement and an active call chain that are known by construction.

type C14Marker struct {
	File   string `json:"file"`
	Line   int    `json:"line"`
	Fn     string `json:"fn"`
	Inline bool   `json:"inline,omitempty"` // the marker call sits in a function literal that is written and called on this very line
	First  int    `json:"first,omitempty"`  // multi-line statements: the innermost statement containing the call spans First..Last
	Last   int    `json:"last,omitempty"`
	Dead   bool   `json:"dead,omitempty"` // in code that can never execute
}

type C14Func struct {
	File     string `json:"file"`     // file of the function body
	Parent   string `json:"parent"`   // function containing the (unique) outer call site
	CallFile string `json:"callFile"` // file and line of that call site
	CallLine int    `json:"callLine"`
	RecLine  int    `json:"recLine,omitempty"` // line of the recursive call site (recursive functions)
	Depth    int    `json:"depth,omitempty"`   // initial value of the depth counter
}

type C14Planted struct {
	ID   int    `json:"id"`
	Kind string `json:"kind"` // oob strlimit byteslimit illTyped notCallable
}

// C14Ladder: Count consecutive lines starting at First, each performing exactly
// one tracked allocation and nothing else.
type C14Ladder struct {
	File  string `json:"file"`
	First int    `json:"first"`
	Count int    `json:"count"`
}

type C14Meta struct {
	Ladders  []C14Ladder               `json:"ladders,omitempty"`
	Root     string                    `json:"root"` // name of the function that is the program body ("<root>")
	Markers  map[int]C14Marker         `json:"markers"`
	Funcs    map[string]C14Func        `json:"funcs"`
	LineFn   map[string]map[int]string `json:"lineFn"` // file -> line -> innermost function containing it
	Planted  []C14Planted              `json:"planted,omitempty"`
	RecFn    string                    `json:"recFn,omitempty"` // frame-limit ladder: function, its recursive site
	Files    map[string][]string       `json:"files"`           // file -> source lines (for column checks)
	RootFile string                    `json:"rootFile"`
}

type c14b struct {
	r      *plan.Rng
	files  map[string]*[]string
	meta   *C14Meta
	nextID int
	nextFn int
	budget int // remaining function definitions
	nvar   int
}

func (b *c14b) emit(file, fn, text string, indent int) int {
	ls := b.files[file]
	*ls = append(*ls, strings.Repeat("\t", indent)+text)
	n := len(*ls)
	if b.meta.LineFn[file] == nil {
		b.meta.LineFn[file] = map[int]string{}
	}
	b.meta.LineFn[file][n] = fn
	return n
}

func (b *c14b) marker(file, fn string, line int, dead bool) int {
	b.nextID++
	b.meta.Markers[b.nextID] = C14Marker{File: file, Line: line, Fn: fn, Dead: dead}
	return b.nextID
}

func (b *c14b) v() string { b.nvar++; return "t" + itoa(b.nvar) }

// ladder emits n single-allocation statements on consecutive lines.
func (b *c14b) ladder(file, fn string, indent int) {
	n := b.r.Range(4, 9)
	first := len(*b.files[file]) + 1
	for i := 0; i < n; i++ {
		b.emit(file, fn, b.v()+" := "+[]string{"[]", "{}", "[7]", "{a: 7}", "error(7)", "[]", "{}"}[b.r.Intn(7)], indent)
	}
	b.meta.Ladders = append(b.meta.Ladders, C14Ladder{File: file, First: first, Count: n})
}

// nextLineFix moves marker id to the line about to be emitted (used when a
// marker statement needs a preparatory line first).
func (b *c14b) nextLineFix(file, fn string, id int) {
	m := b.meta.Markers[id]
	m.Line = len(*b.files[file]) + 1
	b.meta.Markers[id] = m
}

// markerStmt emits one statement containing a marker call.
func (b *c14b) markerStmt(file, fn, dvar string, indent int, dead bool) {
	nextLine := len(*b.files[file]) + 1
	id := b.marker(file, fn, nextLine, dead)
	call := "mk.mark(" + itoa(id) + ", " + dvar + ")"
	switch b.r.Intn(23) {
	case 20, 21, 22:
		// a statement spanning several lines: any line of it is "within the statement"
		first := len(*b.files[file]) + 1
		x := b.v()
		switch b.r.Intn(3) {
		case 0:
			b.emit(file, fn, x+" := [1,", indent)
			b.emit(file, fn, call+",", indent+1)
			b.emit(file, fn, "3]", indent+1)
		case 1:
			b.emit(file, fn, x+" := func(p, q, r) { return q }(", indent)
			b.emit(file, fn, "1,", indent+1)
			b.emit(file, fn, call+",", indent+1)
			b.emit(file, fn, "3)", indent+1)
		default:
			b.emit(file, fn, x+" := {", indent)
			b.emit(file, fn, "a: 1,", indent+1)
			b.emit(file, fn, "b: "+call+" +", indent+1)
			b.emit(file, fn, "2}", indent+2)
		}
		m := b.meta.Markers[id]
		m.Line = first + 1
		if m.Line < first {
			m.Line = first
		}
		m.First, m.Last = first, len(*b.files[file])
		b.meta.Markers[id] = m
	case 16:
		b.emit(file, fn, "for "+b.v()+" := 0; "+"false"+"; {", indent)
		b.emit(file, fn, "}", indent)
		b.nextLineFix(file, fn, id)
		x := b.v()
		b.emit(file, fn, "for "+x+" := 0; "+x+" < 1; "+x+" += "+call+" {", indent)
		b.emit(file, fn, "}", indent)
	case 17:
		b.emit(file, fn, b.v()+" := false || "+call+" > 0", indent)
	case 18:
		b.emit(file, fn, b.v()+" := true && "+call+" > 0", indent)
	case 19:
		b.emit(file, fn, b.v()+" := error("+call+").value + 1", indent)
	case 14, 15:
		// the same helper literal text at every use: identical code, different places
		m := b.meta.Markers[id]
		m.Inline = true
		b.meta.Markers[id] = m
		if b.r.Chance(1, 3) {
			// no constant and no global inside: the instruction bytes of all uses are equal
			// even before constants are de-duplicated
			b.emit(file, fn, b.v()+" := func(f, k, d) { return f(k, d) }(mk.mark, "+itoa(id)+", "+dvar+")", indent)
		} else if b.r.Chance(1, 2) {
			b.emit(file, fn, b.v()+" := func(k, d) { return mk.mark(k, d) }("+itoa(id)+", "+dvar+")", indent)
		} else {
			b.emit(file, fn, b.v()+" := func(k, d) { x := [k, d]; return mk.mark(x[0], x[1]) + 1 }("+itoa(id)+", "+dvar+")", indent)
		}
	case 7:
		x := b.v()
		b.emit(file, fn, x+" := 0", indent)
		b.nextLineFix(file, fn, id)
		b.emit(file, fn, x+" += "+call, indent)
	case 8:
		x := b.v()
		b.emit(file, fn, x+" := {k: 0}", indent)
		b.nextLineFix(file, fn, id)
		b.emit(file, fn, x+".k = "+call, indent)
	case 9:
		x := b.v()
		b.emit(file, fn, x+" := [0, 1]", indent)
		b.nextLineFix(file, fn, id)
		b.emit(file, fn, x+"["+call+" - "+itoa(id)+"] = 5", indent)
	case 10:
		b.emit(file, fn, b.v()+" := true ? "+call+" : 0", indent)
	case 11:
		b.emit(file, fn, "for "+b.v()+" in ["+call+"] {", indent)
		b.emit(file, fn, "}", indent)
	case 12:
		b.emit(file, fn, b.v()+" := func(q, r) { return q }(["+call+", 2]...)", indent)
	case 13:
		b.emit(file, fn, b.v()+" := func(q) { return q }("+call+")", indent)
	case 0:
		b.emit(file, fn, call, indent)
	case 1:
		b.emit(file, fn, b.v()+" := "+call+" + 1", indent)
	case 2:
		b.emit(file, fn, "if "+call+" < 0 {", indent)
		b.emit(file, fn, b.v()+" := 1", indent+1)
		b.emit(file, fn, "}", indent)
	case 3:
		b.emit(file, fn, b.v()+" := [1, "+call+", 3]", indent)
	case 4:
		b.emit(file, fn, b.v()+" := len(["+call+"]) + (true ? 1 : 2)", indent)
	case 5:
		b.emit(file, fn, "for "+call+" < 0 {", indent)
		b.emit(file, fn, "}", indent)
	default:
		b.emit(file, fn, b.v()+" := {a: "+call+"}", indent)
	}
}

// deadJumps emits live code whose compiled form contains instructions the
// optimizer removes (the jump over an else branch after a return, code after a
// return inside a loop body), so that every later instruction of the function
// is shifted. Only inside functions (a return in the root body would end the script).
func (b *c14b) deadJumps(file, fn string, indent int) {
	x := b.v()
	switch b.r.Intn(4) {
	case 0:
		b.emit(file, fn, "if "+itoa(b.r.Intn(9))+" < -1 {", indent)
		b.emit(file, fn, "return 0", indent+1)
		b.emit(file, fn, "} else {", indent)
		b.emit(file, fn, x+" := 1", indent+1)
		b.emit(file, fn, "}", indent)
	case 1:
		b.emit(file, fn, x+" := "+itoa(b.r.Intn(9)), indent)
		b.emit(file, fn, "if "+x+" < -1 {", indent)
		b.emit(file, fn, "return 1", indent+1)
		b.emit(file, fn, "} else if "+x+" < -2 {", indent)
		b.emit(file, fn, "return 2", indent+1)
		b.emit(file, fn, "} else {", indent)
		b.emit(file, fn, x+" = 3", indent+1)
		b.emit(file, fn, "}", indent)
	case 2:
		b.emit(file, fn, "for "+x+" := 0; "+x+" < -1; "+x+"++ {", indent)
		b.emit(file, fn, "return 3", indent+1)
		b.emit(file, fn, "}", indent)
	default:
		b.emit(file, fn, "if "+itoa(b.r.Intn(9))+" < -1 {", indent)
		b.emit(file, fn, "return 4", indent+1)
		b.markerStmt(file, fn, "0", indent+1, true)
		b.emit(file, fn, "} else {", indent)
		b.emit(file, fn, x+" := 2", indent+1)
		b.emit(file, fn, "}", indent)
	}
}

func (b *c14b) noise(file, fn string, indent int) {
	if fn != "<root>" && fn != "<lib>" && b.r.Chance(1, 2) {
		b.deadJumps(file, fn, indent)
		return
	}
	if b.r.Chance(1, 3) {
		// constructs that span lines or are skipped by the scanner: later line numbers depend on them
		switch b.r.Intn(7) {
		case 4:
			b.emit(file, fn, b.v()+" := 1 /* trailing note */", indent)
		case 5:
			b.emit(file, fn, b.v()+" := 3 /* two", indent)
			b.emit(file, fn, "   lines */", indent)
		case 6:
			b.emit(file, fn, b.v()+" := [1, 2] /* a */ /* b */   ", indent)
		case 0:
			b.emit(file, fn, "// comment with a \"string\" and a brace {", indent)
		case 1:
			b.emit(file, fn, "/* block comment", indent)
			b.emit(file, fn, "   spanning { three", indent)
			b.emit(file, fn, "   lines */", indent)
		case 2:
			x := b.v()
			b.emit(file, fn, x+" := `raw string", indent)
			b.emit(file, fn, "over two lines`", 0)
		default:
			b.emit(file, fn, b.v()+" := \"escaped \\n newline and \\\" quote\" /* trailing */ // comment", indent)
		}
		return
	}
	switch b.r.Intn(5) {
	case 0:
		b.emit(file, fn, b.v()+" := "+itoa(b.r.Intn(50))+" * 2 + 1", indent)
	case 1:
		b.emit(file, fn, b.v()+" := [1, 2, 3][1:2]", indent)
	case 2:
		x := b.v()
		b.emit(file, fn, x+" := 0", indent)
		b.emit(file, fn, "for i := 0; i < 3; i++ {", indent)
		b.emit(file, fn, "if i == 1 {", indent+1)
		b.emit(file, fn, "continue", indent+2)
		b.emit(file, fn, "}", indent+1)
		b.emit(file, fn, x+" += i", indent+1)
		b.emit(file, fn, "if i == 2 {", indent+1)
		b.emit(file, fn, "break", indent+2)
		b.emit(file, fn, "}", indent+1)
		b.emit(file, fn, "}", indent)
	case 3:
		b.emit(file, fn, "if false {", indent)
		b.markerStmt(file, fn, "0", indent+1, true)
		b.emit(file, fn, "}", indent)
	default:
		b.emit(file, fn, b.v()+" := \"s\" + string("+itoa(b.r.Intn(9))+")", indent)
	}
}

func (b *c14b) planted(file, fn, dvar string, indent int) {
	kinds := []string{"oob", "strlimit", "byteslimit", "illTyped", "notCallable", "oobSel", "strlimitFmt", "strlimitConv", "byteslimitConv", "sliceBad", "iterBad", "unaryBad", "complBad", "selBad", "immutableSet",
		// the operand of the failing operation is a plain variable (no call in the failing statement)
		"iterVar", "unaryVar", "indexVar", "sliceVar",
		// ... or a function literal without explicit return (its constant/closure instruction
		// has the position of the literal's own implicit return)
		"iterLit", "unaryLit"}
	kind := kinds[b.r.Intn(len(kinds))]
	b.emit(file, fn, "if mk.boom() == "+itoa(b.nextID+1)+" {", indent)
	parr := b.v()
	if kind == "oob" {
		b.emit(file, fn, parr+" := [1, 2]", indent+1)
	}
	if kind == "oobSel" {
		b.emit(file, fn, parr+" := {a: {b: [1, 2]}}", indent+1)
	}
	if kind == "immutableSet" {
		b.emit(file, fn, parr+" := immutable([1, 2])", indent+1)
	}
	nextLine := len(*b.files[file]) + 1
	id := b.marker(file, fn, nextLine, false)
	call := "mk.mark(" + itoa(id) + ", " + dvar + ")"
	switch kind {
	case "iterVar", "unaryVar", "indexVar", "sliceVar", "iterLit", "unaryLit":
		// the marker call sits on a line of its own; the statement that fails is the next one
		pv, px, pn := b.v(), b.v(), b.v()
		b.emit(file, fn, pv+" := \"k\" + string("+call+")", indent+1)
		b.emit(file, fn, px+" := [1, 2, 3]", indent+1)
		b.emit(file, fn, pn+" := len("+pv+")", indent+1)
		b.nextLineFix(file, fn, id)
		switch kind {
		case "iterVar":
			b.emit(file, fn, "for "+b.v()+" in "+pn+" {", indent+1)
			b.emit(file, fn, "}", indent+1)
		case "unaryVar":
			b.emit(file, fn, px+" = -"+pv, indent+1)
		case "iterLit":
			b.emit(file, fn, "for "+b.v()+" in func() {} {", indent+1)
			b.emit(file, fn, "}", indent+1)
		case "unaryLit":
			b.emit(file, fn, px+" = -func() {}", indent+1)
		case "indexVar":
			b.emit(file, fn, px+" = "+px+"["+pv+"]", indent+1)
		default:
			b.emit(file, fn, px+" = "+px+"[:"+pv+"]", indent+1)
		}
	case "oob":
		b.emit(file, fn, parr+"["+call+" + 5] = 1", indent+1)
	case "oobSel":
		b.emit(file, fn, parr+".a.b["+call+" + 5] = 1", indent+1)
	case "sliceBad":
		b.emit(file, fn, b.v()+" := [1, 2, 3][\"a\" + string("+call+"):]", indent+1)
	case "iterBad":
		b.emit(file, fn, "for "+b.v()+" in "+call+" {", indent+1)
		b.emit(file, fn, "}", indent+1)
	case "unaryBad":
		b.emit(file, fn, b.v()+" := -string("+call+")", indent+1)
	case "complBad":
		b.emit(file, fn, b.v()+" := ^(2.5 + float("+call+"))", indent+1)
	case "selBad":
		b.emit(file, fn, b.v()+" := "+call+".field.deeper", indent+1)
	case "immutableSet":
		b.emit(file, fn, parr+"["+call+" - "+itoa(id)+"] = 3", indent+1)
	case "strlimitFmt":
		b.emit(file, fn, b.v()+" := format(\"%s|%s\", \"0123456789abcdef012345678\", string("+call+"))", indent+1)
	case "strlimitConv":
		b.emit(file, fn, b.v()+" := string(bytes(\"0123456789abcdef\") + bytes(\"0123456789\" + string("+call+")))", indent+1)
	case "byteslimitConv":
		b.emit(file, fn, b.v()+" := bytes(\"0123456789abcdef\" + \"0123456789\" + string("+call+"))", indent+1)
	case "strlimit":
		b.emit(file, fn, b.v()+" := \"0123456789abcdef\" + \"0123456789\" + string("+call+")", indent+1)
	case "byteslimit":
		b.emit(file, fn, b.v()+" := bytes(\"0123456789abcdef\") + bytes(\"0123456789\" + string("+call+"))", indent+1)
	case "illTyped":
		b.emit(file, fn, b.v()+" := 1 + string("+call+")", indent+1)
	default:
		b.emit(file, fn, b.v()+" := "+call+"(1)", indent+1)
	}
	b.emit(file, fn, "}", indent)
	b.meta.Planted = append(b.meta.Planted, C14Planted{ID: id, Kind: kind})
}

// body emits the statements of function fn (already opened by the caller).
// dvar is the expression giving the depth counter ("0" for non-recursive fns).
func (b *c14b) body(file, fn, dvar string, indent, level int) {
	n := b.r.Range(2, 6)
	for i := 0; i < n; i++ {
		switch x := b.r.Intn(12); {
		case x < 4:
			b.markerStmt(file, fn, dvar, indent, false)
		case x < 6:
			b.noise(file, fn, indent)
		case x < 7:
			b.planted(file, fn, dvar, indent)
		case x < 10 && b.budget > 0 && level < 5:
			b.budget--
			b.defAndCall(file, fn, dvar, indent, level)
		default:
			b.markerStmt(file, fn, dvar, indent, false)
		}
	}
}

// defAndCall defines a new function right here and calls it once.
func (b *c14b) defAndCall(file, fn, dvar string, indent, level int) {
	b.nextFn++
	name := "f" + itoa(b.nextFn)
	recursive := b.r.Chance(1, 4)
	// in a recursive parent, nested calls only happen at depth 0 (so that the
	// parent's depth at the call is known)
	guard := dvar != "0"
	if guard {
		b.emit(file, fn, "if "+dvar+" == 0 {", indent)
		indent++
	}
	if recursive {
		D := b.r.Range(1, 4)
		b.emit(file, fn, name+" := func(d) {", indent)
		b.markerStmt(file, name, "d", indent+1, false)
		b.emit(file, name, "if d > 0 {", indent+1)
		recLine := b.emit(file, name, name+"(d - 1)", indent+2)
		b.emit(file, name, "}", indent+1)
		b.body(file, name, "d", indent+1, level+1)
		b.emit(file, name, "return d", indent+1)
		if b.r.Chance(1, 2) {
			b.markerStmt(file, name, "d", indent+1, true) // dead code after return
			b.emit(file, name, b.v()+" := 5", indent+1)
		}
		b.emit(file, fn, "}", indent)
		callLine := b.emit(file, fn, name+"("+itoa(D)+")", indent)
		b.meta.Funcs[name] = C14Func{File: file, Parent: fn, CallFile: file, CallLine: callLine, RecLine: recLine, Depth: D}
	} else {
		if b.r.Chance(1, 4) {
			b.emit(file, fn, name+" := func(a, ...rest) {", indent)
		} else {
			b.emit(file, fn, name+" := func(a) {", indent)
		}
		b.body(file, name, "0", indent+1, level+1)
		b.emit(file, name, "return a + 1", indent+1)
		if b.r.Chance(1, 2) {
			b.markerStmt(file, name, "0", indent+1, true)
		}
		b.emit(file, fn, "}", indent)
		var callLine int
		switch b.r.Intn(11) {
		case 3:
			callLine = b.emit(file, fn, b.v()+" := "+name+"([4]...)", indent)
		case 4:
			x := b.v()
			b.emit(file, fn, x+" := 0", indent)
			b.emit(file, fn, "for "+b.v()+" in [1] {", indent)
			callLine = b.emit(file, fn, x+" += "+name+"(5)", indent+1)
			b.emit(file, fn, "}", indent)
		case 5:
			callLine = b.emit(file, fn, b.v()+" := true ? "+name+"(6) : 0", indent)
		case 6:
			callLine = b.emit(file, fn, b.v()+" := {k: "+name+"(7)}.k", indent)
		case 7:
			callLine = b.emit(file, fn, b.v()+" := [1, 2, 3]["+name+"(0)]", indent)
		case 8:
			callLine = b.emit(file, fn, b.v()+" := func(q) { return q }("+name+"(8))", indent)
		case 9:
			cp := b.v()
			b.emit(file, fn, cp+" := copy("+name+")", indent)
			callLine = b.emit(file, fn, b.v()+" := "+cp+"(9)", indent)
		case 10:
			arrv := b.v()
			b.emit(file, fn, arrv+" := {f: "+name+"}", indent)
			callLine = b.emit(file, fn, b.v()+" := "+arrv+".f(10)", indent)
		case 0:
			callLine = b.emit(file, fn, b.v()+" := "+name+"(1) * 2", indent)
		case 1:
			callLine = b.emit(file, fn, name+"(2)", indent)
			b.emit(file, fn, b.v()+" := 0", indent)
		default:
			callLine = b.emit(file, fn, b.v()+" := ["+name+"(3)]", indent)
		}
		b.meta.Funcs[name] = C14Func{File: file, Parent: fn, CallFile: file, CallLine: callLine}
	}
	if guard {
		indent--
		b.emit(file, fn, "}", indent)
	}
}

func genC14(r *plan.Rng) *plan.Plan {
	p := &plan.Plan{Shape: "calltree"}
	asModule := r.Chance(1, 4)
	rootFile := "(main)"
	if asModule {
		rootFile = "prog"
		p.Shape = "calltree-as-module"
	}
	meta := &C14Meta{Root: "<root>", Markers: map[int]C14Marker{}, Funcs: map[string]C14Func{}, LineFn: map[string]map[int]string{}, Files: map[string][]string{}, RootFile: rootFile}
	b := &c14b{r: r, files: map[string]*[]string{}, meta: meta, budget: r.Range(1, 6)}
	root := []string{}
	b.files[rootFile] = &root
	if r.Chance(1, 2) {
		// the very first bytes of the file are a failing call expression (offset 0 of the file)
		id := b.marker(rootFile, "<root>", 1, false)
		b.emit(rootFile, "<root>", "import(\"mk\").mark("+itoa(id)+", 0)", 0)
	}
	b.emit(rootFile, "<root>", "mk := import(\"mk\")", 0)
	if r.Chance(1, 2) {
		b.ladder(rootFile, "<root>", 0)
	}
	if r.Chance(1, 2) {
		// a ladder as the first statements of a function body
		b.emit(rootFile, "<root>", "ladf := func() {", 0)
		b.ladder(rootFile, "ladf", 1)
		b.emit(rootFile, "ladf", "return 0", 1)
		b.emit(rootFile, "<root>", "}", 0)
		cl := b.emit(rootFile, "<root>", "ladf()", 0)
		b.emit(rootFile, "<root>", b.v()+" := 0", 0)
		meta.Funcs["ladf"] = C14Func{File: rootFile, Parent: "<root>", CallFile: rootFile, CallLine: cl}
	}
	// optional source module with functions called from the root file
	useMod := r.Chance(1, 2)
	useSub := false
	if useMod {
		mod := []string{}
		b.files["lib"] = &mod
		if r.Chance(1, 2) {
			id := b.marker("lib", "<lib>", 1, false)
			b.emit("lib", "<lib>", "import(\"mk\").mark("+itoa(id)+", 0)", 0)
		}
		b.emit("lib", "<lib>", "mk := import(\"mk\")", 0)
		b.emit("lib", "<lib>", "base := 10", 0)
		if b.r.Chance(1, 2) {
			// a second source file, imported from the first module
			sub := []string{}
			b.files["sub"] = &sub
			if r.Chance(1, 2) {
				id := b.marker("sub", "<sub>", 1, false)
				b.emit("sub", "<sub>", "import(\"mk\").mark("+itoa(id)+", 0)", 0)
			}
			b.emit("sub", "<sub>", "mk := import(\"mk\")", 0)
			b.emit("sub", "<sub>", "pad := \"xxxxxxxxxxxxxxxxxxxxxxxxxxxxxxxxxxxxxxxx\"", 0)
			b.markerStmt("sub", "<sub>", "0", 0, false)
			b.emit("sub", "<sub>", "sf := func(a) {", 0)
			b.body("sub", "sf", "0", 1, 3)
			b.emit("sub", "sf", "return a", 1)
			b.emit("sub", "<sub>", "}", 0)
			b.emit("sub", "<sub>", "export {sf: sf}", 0)
			impLine := b.emit("lib", "<lib>", "sub := import(\"sub\")", 0)
			callLine := b.emit("lib", "<lib>", "base = sub.sf(base)", 0)
			b.meta.Funcs["<sub>"] = C14Func{File: "sub", Parent: "<lib>", CallFile: "lib", CallLine: impLine}
			b.meta.Funcs["sf"] = C14Func{File: "sub", Parent: "<lib>", CallFile: "lib", CallLine: callLine}
			useSub = true
		}
		if r.Chance(1, 2) {
			b.markerStmt("lib", "<lib>", "0", 0, false) // executed when the module is imported
		}
		b.emit("lib", "<lib>", "lf := func(a) {", 0)
		b.body("lib", "lf", "0", 1, 2)
		b.emit("lib", "lf", "return a + base", 1)
		b.emit("lib", "<lib>", "}", 0)
		b.emit("lib", "<lib>", "export {lf: lf}", 0)
	}
	b.body(rootFile, "<root>", "0", 0, 0)
	if useMod {
		impLine := b.emit(rootFile, "<root>", "lib := import(\"lib\")", 0)
		callLine := b.emit(rootFile, "<root>", b.v()+" := lib.lf(1)", 0)
		meta.Funcs["<lib>"] = C14Func{File: "lib", Parent: "<root>", CallFile: rootFile, CallLine: impLine}
		meta.Funcs["lf"] = C14Func{File: "lib", Parent: "<root>", CallFile: rootFile, CallLine: callLine}
	}
	b.body(rootFile, "<root>", "0", 0, 0)
	// frame-limit ladder: recursion with a counter through one call site, switched on by boom == -1
	if r.Chance(1, 2) {
		b.emit(rootFile, "<root>", "if mk.boom() == -1 {", 0)
		// zero-argument frames occupy one operand slot each, so the frame limit
		// (not the operand stack) is what runs out
		b.emit(rootFile, "<root>", "dcnt := 0", 1)
		b.emit(rootFile, "<root>", "deep := func() {", 1)
		b.emit(rootFile, "deep", "dcnt += 1", 2)
		b.emit(rootFile, "deep", "if dcnt < 100000 {", 2)
		recLine := b.emit(rootFile, "deep", "deep()", 3)
		b.emit(rootFile, "deep", "}", 2)
		b.emit(rootFile, "deep", "return dcnt", 2)
		b.emit(rootFile, "<root>", "}", 1)
		callLine := b.emit(rootFile, "<root>", "deep()", 1)
		b.emit(rootFile, "<root>", "}", 0)
		meta.Funcs["deep"] = C14Func{File: rootFile, Parent: "<root>", CallFile: rootFile, CallLine: callLine, RecLine: recLine, Depth: 100000}
		meta.RecFn = "deep"
	}
	b.emit(rootFile, "<root>", "done := 1", 0)
	if asModule {
		b.emit(rootFile, "<root>", "export {done: done}", 0)
	}
	for f, ls := range b.files {
		meta.Files[f] = *ls
	}
	mods := []string{"mk"}
	p.Modules = append(p.Modules, plan.Module{Name: "mk", Host: "marker"})
	if useMod {
		p.Modules = append(p.Modules, plan.Module{Name: "lib", Src: lines(*b.files["lib"]...)})
		mods = append(mods, "lib")
	}
	if useSub {
		p.Modules = append(p.Modules, plan.Module{Name: "sub", Src: lines(*b.files["sub"]...)})
		mods = append(mods, "sub")
	}
	mainSrc := lines(root...)
	eol := r.Intn(6)
	fix := func(src string) string {
		switch eol {
		case 0:
			return strings.ReplaceAll(src, "\n", "\r\n")
		case 1:
			return strings.TrimSuffix(src, "\n")
		}
		return src
	}
	mainSrc = fix(mainSrc)
	for i := range p.Modules {
		if p.Modules[i].Src != "" {
			p.Modules[i].Src = fix(p.Modules[i].Src)
		}
	}
	note(p, "eol", []string{"crlf", "noFinalNewline", "lf", "lf", "lf", "lf"}[eol])
	if asModule {
		p.Modules = append(p.Modules, plan.Module{Name: "prog", Src: mainSrc})
		mods = append(mods, "prog")
		mainSrc = lines("pr := import(\"prog\")", "done := pr.done")
		meta.Funcs["<root>"] = C14Func{File: "prog", Parent: "<main>", CallFile: "(main)", CallLine: 1}
	}
	p.Scripts = []plan.Script{{Src: mainSrc, Modules: mods}}
	mb, _ := json.Marshal(meta)
	p.Meta = mb
	note(p, "shape", p.Shape)
	param(p, "markers", int64(len(meta.Markers)))
	param(p, "funcs", int64(len(meta.Funcs)))
	return p
}
