package gen

import "verif/plan"

func genC15(r *plan.Rng) *plan.Plan { panic("C15 generator not built yet") }
