package gen

import "verif/plan"

func genC06(r *plan.Rng) *plan.Plan { panic("C06 generator not built yet") }
func genC14(r *plan.Rng) *plan.Plan { panic("C14 generator not built yet") }
func genC15(r *plan.Rng) *plan.Plan { panic("C15 generator not built yet") }
