package gen

import (
	"fmt"
	"strings"

	"verif/plan"
)

// Hostile workload for C05. A program has the shape
//
//	<prelude: one value of every type>
//	out := 0
//	if mode == 1 { <hostile idioms> }
//	out = in + 1
//
// so that the same compiled object can afterwards be run benignly (mode 0)
// and compared with a fresh object.

var c05Prelude = []string{
	"a := [1, 2, 3]",
	"m := {x: 1, y: 2}",
	"s := \"héllo\"",
	"b := bytes(\"abc\")",
	"f := func(x) { return x }",
	"e := error(\"boom\")",
	"u := undefined",
	"im := immutable([1, 2])",
	"imm := immutable({k: 1})",
	"fl := 2.5",
	"ch := 'c'",
	"t := true",
	"n := 7",
	"r := 0",
}

var c05Vals = []string{"a", "m", "s", "b", "f", "e", "u", "im", "imm", "fl", "ch", "t", "n", "1", "0", "-1", "\"x\"", "[]", "{}", "len", "inarr", "9223372036854775807",
	"-9223372036854775807", "(-9223372036854775807 - 1)", "(fl * 1e308 * 10.0)", "(0.0 / (fl - fl))", "\"\"", "\"%d %s %v\"", "bytes(0)", "'\\x00'", "time(0)", "[a, [a, [a]]]", "{k: {k: {k: m}}}", "error(e)", "immutable([m, a])", "2147483648", "-2147483649", "1.5e300", "9007199254740993", "9007199254740992", "0.5", "9.007199254740993e15"}
// values that make range()/bytes() request gigabytes in one call
var c05Huge = map[string]bool{"9223372036854775807": true, "-9223372036854775807": true, "(-9223372036854775807 - 1)": true, "2147483648": true, "-2147483649": true,
	"9007199254740993": true, "9007199254740992": true, "(fl * 1e308 * 10.0)": true, "1.5e300": true, "9.007199254740993e15": true}

var c05BinOps = []string{"+", "-", "*", "/", "%", "&", "|", "^", "<<", ">>", "<", ">", "<=", ">=", "&^", "==", "!=", "&&", "||"}

type c05Idiom struct {
	name  string
	lines func(r *plan.Rng) []string
	known bool // expected to hit the known cyclic-container finding
	loops bool // may not terminate: needs a cancelling context
	mods  []string
	host  bool
}

func pickVal(r *plan.Rng) string { return c05Vals[r.Intn(len(c05Vals))] }

var c05Builtins = []string{"len", "copy", "append", "delete", "splice", "string", "int", "bool", "float", "char", "bytes", "time",
	"is_int", "is_float", "is_string", "is_bool", "is_char", "is_bytes", "is_array", "is_immutable_array", "is_map", "is_immutable_map",
	"is_iterable", "is_time", "is_error", "is_undefined", "is_function", "is_callable", "type_name", "format", "range", "freeze"}

func c05Idioms() []c05Idiom {
	L := func(ls ...string) func(*plan.Rng) []string { return func(*plan.Rng) []string { return ls } }
	return []c05Idiom{
		{name: "binop", lines: func(r *plan.Rng) []string {
			return []string{"r = " + pickVal(r) + " " + c05BinOps[r.Intn(len(c05BinOps))] + " " + pickVal(r)}
		}},
		{name: "binopChain", lines: func(r *plan.Rng) []string {
			return []string{"r = (" + pickVal(r) + " " + c05BinOps[r.Intn(len(c05BinOps))] + " " + pickVal(r) + ") " + c05BinOps[r.Intn(len(c05BinOps))] + " " + pickVal(r)}
		}},
		{name: "unary", lines: func(r *plan.Rng) []string {
			return []string{"r = " + []string{"-", "^", "!", "+"}[r.Intn(4)] + pickVal(r)}
		}},
		{name: "divZero", lines: func(r *plan.Rng) []string {
			return []string{"r = " + []string{"n / (inp - inp)", "n % (inp - inp)", "fl / (inp - inp)", "ch / (inp - inp)", "n / 0", "-9223372036854775807 - 1", "(-9223372036854775807 - 1) / -1", "(-9223372036854775807 - 1) % -1"}[r.Intn(8)]}
		}},
		{name: "shift", lines: func(r *plan.Rng) []string {
			return []string{"r = " + []string{"1 << 9999999999", "1 << -1", "1 >> -5", "n << (inp - inp - 3)", "1 << 64", "-1 >> 70", "n &^ -1",
				"1 << (-9223372036854775807 - 1)", "n >> (-9223372036854775807 - 1)", "n << (1 << 63)", "-1 >> (n - n - 9223372036854775807 - 1)", "n >> 9223372036854775807", "n << -9223372036854775807"}[r.Intn(13)]}
		}},
		{name: "indexGet", lines: func(r *plan.Rng) []string {
			idx := []string{"10", "-1", "\"k\"", "fl", "u", "a", "9223372036854775807", "0", "t", "'c'"}[r.Intn(10)]
			return []string{"r = " + pickVal(r) + "[" + idx + "]"}
		}},
		{name: "indexSet", lines: func(r *plan.Rng) []string {
			idx := []string{"10", "-1", "\"k\"", "fl", "u", "3", "0", "t"}[r.Intn(8)]
			tgt := []string{"a", "m", "s", "b", "f", "e", "u", "im", "imm", "n", "inarr"}[r.Intn(11)]
			return []string{tgt + "[" + idx + "] = " + pickVal(r)}
		}},
		{name: "selectorChain", lines: func(r *plan.Rng) []string {
			return []string{[]string{"r = u.x.y.z", "u.x = 1", "m.x.y = 1", "r = f.x", "r = e.value.value", "e.value = 1", "r = e.foo", "m.q.w.e = 5", "r = s.x", "a.b = 1", "imm.k = 2", "im.k = 1"}[r.Intn(12)]}
		}},
		{name: "slice", lines: func(r *plan.Rng) []string {
			tgt := []string{"a", "s", "b", "im", "m", "n", "u", "inarr"}[r.Intn(8)]
			lo := []string{"", "2", "-5", "\"x\"", "100", "9223372036854775807", "fl", "u"}[r.Intn(8)]
			hi := []string{"", "1", "100", "\"x\"", "-1", "-9223372036854775807", "t", "u"}[r.Intn(8)]
			return []string{"r = " + tgt + "[" + lo + ":" + hi + "]"}
		}},
		{name: "callNonFunc", lines: func(r *plan.Rng) []string {
			return []string{"r = " + pickVal(r) + "(" + []string{"", "1", "a...", "1, 2"}[r.Intn(4)] + ")"}
		}},
		{name: "arity", lines: func(r *plan.Rng) []string {
			return []string{[]string{"r = f()", "r = f(1, 2, 3)", "r = f(a...)", "r = f(5...)", "r = f([]...)", "r = f(im...)", "r = f(m...)", "r = f(u...)"}[r.Intn(8)]}
		}},
		{name: "variadic", lines: func(r *plan.Rng) []string {
			call := []string{"vf()", "vf(1)", "vf(1, 2, 3, 4)", "vf(a...)", "vf(1, a...)", "vf([]...)", "vf(1, 2, im...)", "vf(s...)"}[r.Intn(8)]
			return []string{"vf := func(x, y, ...z) { return [x, y, z] }", "r = " + call}
		}},
		{name: "builtinMisuse", lines: func(r *plan.Rng) []string {
			bn := c05Builtins[r.Intn(len(c05Builtins))]
			nargs := r.Intn(4)
			var args []string
			for i := 0; i < nargs; i++ {
				args = append(args, pickVal(r))
			}
			if bn == "range" || bn == "bytes" {
				// keep requested sizes bounded (unbounded single allocations are outside the claim)
				for i := range args {
					if c05Huge[args[i]] {
						args[i] = "n"
					}
				}
			}
			return []string{"r = " + bn + "(" + strings.Join(args, ", ") + ")"}
		}},
		{name: "builtinEdge", lines: func(r *plan.Rng) []string {
			return []string{"r = " + []string{
				"bytes(-1)", "bytes(inp - inp - 5)", "char(-1)", "char(1114112)", "string(bytes(3))", "int(\"x\", 1, 2)", "time(\"x\")", "time(-1) + 1",
				"splice(a, -1)", "splice(a, 0, -1)", "splice(a, 5, 1)", "splice(a, \"x\")", "splice(a, 1, 1, a, a)", "splice(im, 0)",
				"delete(a, 1)", "delete(m)", "delete(m, 1)", "delete(imm, \"k\")", "append(1, 2)", "append()", "append(im, a...)", "append(a, a...)",
				"range(0, 10, 0)", "range(0, 10, -1)", "range(\"a\", 1)", "range(10, 0, 3)", "range(0, 1, 1, 1)",
				"copy()", "copy(f)", "copy(e)", "len(1)", "len(a, a)", "freeze()", "freeze(1, 2)", "freeze(f)", "type_name()", "int(fl * 1e300 * 1e300)", "int(s)", "float(s)", "bool(a)",
				"char(fl)", "string(f)", "string(u)", "bytes(s + s)", "time(n).foo", "is_int()",
			}[r.Intn(46)]}
		}},
		{name: "rangeEdges", lines: func(r *plan.Rng) []string {
			// ranges of a handful of elements whose bounds sit at the ends of the int range
			return []string{"r = " + []string{
				"range(9223372036854775800, 9223372036854775807, 5)", "range(9223372036854775806, 9223372036854775807)", "range(-9223372036854775800, -9223372036854775807, 5)",
				"range(9223372036854775807, 9223372036854775800, 3)", "range(-9223372036854775807, -9223372036854775800, 9223372036854775807)", "range(0, 9223372036854775807, 9223372036854775807)",
				"range(9223372036854775807, 9223372036854775807)", "range(1, 9223372036854775807, 4611686018427387904)",
			}[r.Intn(8)], "r = len(r)"}
		}},
		{name: "format", lines: func(r *plan.Rng) []string {
			return []string{"r = " + []string{
				"format()", "format(5)", "format(\"%d\", \"x\")", "format(\"%*d\", 1000, 5)", "format(\"%.*f\", -1, 2.0)", "format(\"%[5]d\", 1)", "format(\"%!\", 1)",
				"format(\"%v %v\", a)", "format(\"%d %d\", 1)", "format(\"%s\", f)", "format(\"%q\", b)", "format(\"%x\", fl)", "format(\"%c\", -1)", "format(\"%U\", s)",
				"format(\"%08.3f|%-8d|%+d\", fl, n, n)", "format(\"%v\", e)", "format(\"%v\", u)", "format(\"%t\", 5)", "format(\"%[2]*[1]d\", 2, 6)", "format(\"%[1]*d\", \"x\")",
				"format(\"%.100000d\", 1)", "format(\"%100000d\", 1)", "format(\"%\")", "format(\"%z\", 1)", "format(s, s, s)", "format(\"%v\", imm)", "format(\"%#v %T\", a, a)",
			}[r.Intn(27)]}
		}},
		{name: "deepRecursion", lines: L(
			"rf := 0",
			"rf = func(x) { return 1 + rf(x + 1) }",
			"r = rf(0)")},
		{name: "wideRecursion", lines: L(
			"wf := 0",
			"wf = func(x) {",
			"	v0 := x; v1 := x; v2 := x; v3 := x; v4 := x; v5 := x; v6 := x; v7 := x; v8 := x; v9 := x",
			"	w0 := x; w1 := x; w2 := x; w3 := x; w4 := x; w5 := x; w6 := x; w7 := x; w8 := x; w9 := x",
			"	return [v0, v1, v2, v3, v4, v5, v6, v7, v8, v9, w0, w1, w2, w3, w4, w5, w6, w7, w8, w9, wf(x + 1)]",
			"}",
			"r = wf(0)")},
		{name: "mutualRecursion", lines: L(
			"ra := 0",
			"rb := func(x) { return ra(x + 1) + 1 }",
			"ra = func(x) { return rb(x + 1) + 1 }",
			"r = ra(0)")},
		{name: "operandStackExpr", lines: func(r *plan.Rng) []string {
			// a deeply nested literal keeps many operands on the stack inside a recursive call
			depth := r.Range(40, 400)
			return []string{
				"of := 0",
				"of = func(x) { return x > " + itoa(depth) + " ? 0 : [x, [x, [x, [x, [x, [x, [x, [x, of(x + 1)]]]]]]]] }",
				"r = of(0)"}
		}},
		{name: "spreadLong", lines: func(r *plan.Rng) []string {
			n := []int{100, 1000, 2040, 2047, 2048, 2100, 3000}[r.Intn(7)]
			callee := []string{"f", "vf2", "len", "append", "format"}[r.Intn(5)]
			return []string{
				"vf2 := func(...z) { return len(z) }",
				"big := []",
				"for i := 0; i < " + itoa(n) + "; i++ {",
				"	big = append(big, i)",
				"}",
				"r = " + callee + "(big...)"}
		}},
		{name: "manyArgsLiteral", lines: func(r *plan.Rng) []string {
			n := r.Range(200, 255)
			args := make([]string, n)
			for i := range args {
				args[i] = "1"
			}
			return []string{"r = f(" + strings.Join(args, ", ") + ")"}
		}},
		{name: "iterMutateMap", lines: func(r *plan.Rng) []string {
			return [][]string{
				{"for k, v in m {", "	delete(m, \"x\")", "	delete(m, \"y\")", "	r = v + 1", "}"},
				{"mm := {a: 1, b: 2, c: 3, d: 4}", "for k, v in mm {", "	for k2, v2 in mm {", "		delete(mm, k2)", "	}", "	r = v + 1", "}"},
				{"mm := {a: 1, b: 2, c: 3}", "for k, v in mm {", "	mm[k + \"z\"] = v", "	if len(mm) > 50 {", "		break", "	}", "}"},
				{"mm := {a: 1, b: 2, c: 3, d: 4}", "saved := []", "for k, v in mm {", "	delete(mm, \"a\"); delete(mm, \"b\"); delete(mm, \"c\"); delete(mm, \"d\")", "	saved = append(saved, v)", "}", "r = string(saved)", "garr = saved"},
				{"mm := {a: 1, b: 2, c: 3, d: 4}", "for k, v in mm {", "	delete(mm, \"a\"); delete(mm, \"b\"); delete(mm, \"c\"); delete(mm, \"d\")", "	r = is_undefined(v)", "	r = type_name(v)", "}"},
				{"mm := {a: 1, b: 2, c: 3, d: 4}", "for k, v in mm {", "	delete(mm, \"a\"); delete(mm, \"b\"); delete(mm, \"c\"); delete(mm, \"d\")", "	r = [v] == [v]", "	r = format(\"%v\", v)", "}"},
			}[r.Intn(6)]
		}},
		{name: "iterMutateArray", lines: func(r *plan.Rng) []string {
			return [][]string{
				{"for i, x in a {", "	splice(a, 0)", "	r = x", "}"},
				{"for i, x in a {", "	a = append(a, x)", "	if len(a) > 40 {", "		break", "	}", "}"},
				{"arr2 := [1, 2, 3, 4, 5, 6]", "for i, x in arr2 {", "	splice(arr2, 0, 2)", "	r = x + i", "}"},
				{"for i, x in inarr {", "	splice(inarr, 0, 1)", "	r = x", "}"},
				{"bb := bytes(\"abcdef\")", "for i, x in bb {", "	bb = bb[:1]", "	r = x", "}"},
				{"ss := \"héllo wörld\"", "for i, x in ss {", "	ss = \"\"", "	r = x", "}"},
			}[r.Intn(6)]
		}},
		{name: "cyclic", known: true, lines: func(r *plan.Rng) []string {
			mk := [][]string{
				{"cy := [0]", "cy[0] = cy"},
				{"cy := {}", "cy.self = cy"},
				{"cy := [0, 1]", "cym := {k: cy}", "cy[1] = cym"},
				{"cy := [0]", "cy[0] = error(cy)"},
				{"cy := [0]", "cy[0] = immutable([cy])"},
			}[r.Intn(5)]
			use := []string{"r = string(cy)", "r = cy == cy", "r = copy(cy)", "r = format(\"%v\", cy)", "r = \"x\" + cy", "r = cy != [1]", "r = format(\"%s|%d\", cy, 1)", "r = len(string(cy))", "r = [cy] == [cy]"}[r.Intn(9)]
			return append(append([]string{}, mk...), use)
		}},
		{name: "cyclicSafe", lines: func(r *plan.Rng) []string {
			// self-reference that is only stored, measured or frozen: must be harmless
			return [][]string{
				{"cy := [0]", "cy[0] = cy", "r = len(cy)", "r = is_array(cy[0][0][0])"},
				{"cy := [0]", "cy[0] = cy", "r = freeze(cy)", "r = type_name(r)"},
				{"cy := {}", "cy.self = cy", "r = cy.self.self.self == undefined"},
				{"cy := [0]", "cy[0] = cy", "gcy = cy"},
				// immutable() shares the backing store of its operand: the loop can be
				// closed through the immutable wrapper itself
				{"cya := [0]", "cyb := immutable(cya)", "cya[0] = cyb", "r = type_name(freeze(cyb))"},
				{"cym := {}", "cyi := immutable(cym)", "cym.self = cyi", "r = type_name(freeze(cyi))"},
				{"cya := [0, [1]]", "cyb := immutable(cya)", "cya[0] = cyb", "r = type_name(freeze([cyb, {k: cyb}]))"},
				{"cym := {l: [1]}", "cyi := immutable(cym)", "cym.l[0] = cyi", "r = len(freeze(cyi))"},
			}[r.Intn(8)]
		}},
		{name: "closureSelfCapture", lines: func(r *plan.Rng) []string {
			// a local recursive function holds itself in one of its captured cells
			mk := []string{"mkw := func() {", "	walk := func(k) { return k == 0 ? 0 : 1 + walk(k - 1) }", "	return walk", "}", "wk := mkw()"}
			use := [][]string{
				{"w2 := copy(wk)", "r = w2(5) + wk(3)"},
				{"r = copy([wk, {f: wk}])[1].f(4)"},
				{"gcy = wk", "r = wk(2)"},
				{"r = wk == wk", "r = string(wk)", "r = format(\"%v\", [wk])"},
				{"ev := func() { odd := 0; even := func(k) { return k == 0 ? true : odd(k - 1) }; odd = func(k) { return k == 0 ? false : even(k - 1) }; return even }()", "r = copy(ev)(6)"},
			}[r.Intn(5)]
			return append(append([]string{}, mk...), use...)
		}},
		{name: "closureEscape", lines: L(
			"fs := []",
			"for i := 0; i < 5; i++ {",
			"	fs = append(fs, func() { i += 1; return i })",
			"}",
			"for g in fs {",
			"	r = g() + g()",
			"}",
			"r = fs[0](1)")},
		{name: "errorsOfErrors", lines: L(
			"e2 := error(error(error(e)))",
			"r = e2.value.value.value.value",
			"r = e2 == error(error(error(error(\"boom\"))))",
			"r = e2.value.nope.x")},
		{name: "immutableMisuse", lines: func(r *plan.Rng) []string {
			return []string{[]string{"im[0] = 5", "imm.x = 5", "r = immutable(1)", "r = immutable(im)", "r = append(im, 1)", "r = im + a", "r = immutable(f)", "immutable(a)[0] = 1", "r = splice(immutable(a), 0)", "delete(immutable(m), \"x\")"}[r.Intn(10)]}
		}},
		{name: "stringGrow", lines: func(r *plan.Rng) []string {
			n := r.Range(3, 16)
			return []string{"s2 := s", "for i := 0; i < " + itoa(n) + "; i++ {", "	s2 += s2", "}", "r = len(s2)", "b2 := bytes(s2) + bytes(s2)", "r = string(b2) + s2"}
		}},
		{name: "typeConfusion", lines: func(r *plan.Rng) []string {
			return []string{"tc := [a, m, s, b, f, e, u, im, imm, fl, ch, t, n, len]", "for x in tc {", "	for y in tc {", "		r = x " + c05BinOps[r.Intn(15)] + " y", "	}", "}"}
		}},
		{name: "loopForever", loops: true, lines: func(r *plan.Rng) []string {
			return [][]string{
				{"for {", "	r += 1", "}"},
				{"lf := 0", "lf = func(x) { return lf(x + 1) }", "r = lf(0)"},
				{"for {", "	a[0] = [a[0]]", "	if len(string(n)) > 100 {", "		break", "	}", "}"},
			}[r.Intn(3)]
		}},
		{name: "hostCalls", host: true, lines: func(r *plan.Rng) []string {
			return [][]string{
				{"r = h(1)", "r = h(a) == a", "r = h()", "r = h(2) + 1"},
				{"for i := 0; i < 4; i++ {", "	r = h(i) + 1", "}"},
				{"hf := func(x) { return h(x) }", "r = hf(hf(hf(1)))", "r = h(1, 2, 3)"},
			}[r.Intn(3)]
		}},
		{name: "textModule", mods: []string{"text"}, lines: func(r *plan.Rng) []string {
			return []string{"text := import(\"text\")", "r = " + []string{
				"text.re_match()", "text.repeat(\"x\", -1)", "text.re_compile(\"(\")", "text.re_compile(\"a+\").find()", "text.re_compile(\"a+\").replace(1, 2)",
				"text.substr(\"abc\", 5, 1)", "text.substr(\"abc\", -1, 10)", "text.pad_left(\"x\", -5, \" \")", "text.pad_left(\"x\", 5, \"\")", "text.split_n(\"a,b\", \",\", -1)",
				"text.join(a, \",\")", "text.join([1, 2], 5)", "text.atoi(\"x\") + 1", "text.parse_int(\"1\", 99, 99)", "text.format_int(5, 1)", "text.format_int(5, 99)",
				"text.quote(f)", "text.index(u, u)", "text.trim_space()", "text.replace(\"aaa\", \"a\", \"bb\", -1)", "text.re_replace(\"(\", \"x\", \"y\")", "text.format_float(1.5, \"z\", 1, 64)",
			}[r.Intn(22)]}
		}},
		{name: "otherModules", mods: []string{"json", "math", "fmt", "base64", "hex", "enum"}, lines: func(r *plan.Rng) []string {
			return [][]string{
				{"json := import(\"json\")", "r = json.decode(\"{\")", "r = json.encode(f)", "r = json.decode(json.encode(a))[5]"},
				{"json := import(\"json\")", "r = json.encode(e)", "r = json.indent(1, 2, 3)", "r = json.html_escape()"},
				{"math := import(\"math\")", "r = math.abs(\"x\")", "r = math.pow()"},
				{"math := import(\"math\")", "r = int(math.inf(1))", "r = 1 / int(math.nan())", "r = a[int(math.inf(1))]"},
				{"fmt := import(\"fmt\")", "r = fmt.sprintf(\"%d\")", "r = fmt.sprintf(5)", "r = fmt.sprintf()"},
				{"base64 := import(\"base64\")", "r = base64.decode(\"!!!\")", "r = base64.encode(5)"},
				{"hex := import(\"hex\")", "r = hex.decode(\"zz\")", "r = hex.encode()"},
				{"enum := import(\"enum\")", "r = enum.each(1, f)", "r = enum.map(a, 5)", "r = enum.all(a, func() { return 1 })"},
				{"enum := import(\"enum\")", "r = enum.chunk(a, 0)", "r = enum.chunk(a, -1)", "r = enum.at(a, 99)", "r = enum.find(m, f)"},
			}[r.Intn(9)]
		}},
		{name: "failingModule", mods: []string{"badmod"}, lines: L(
			"bm := import(\"badmod\")",
			"r = bm.v")},
		{name: "shadowBuiltins", lines: L(
			"len2 := len",
			"r = len2(a) + len2",
			"r = len2()")},
		{name: "sliceOfSlices", lines: func(r *plan.Rng) []string {
			return [][]string{
				{"x1 := a[1:]", "x2 := x1[1:]", "x3 := append(x2, 9, 9, 9)", "x1[1] = x3", "r = string(x1[0:1])", "r = x2[5]"},
				{"q := bytes(\"abcdef\")", "q2 := q[2:4]", "q3 := q2 + q[5:] + q2[1:]", "r = q3[10]", "r = string(q3[1:1])", "r = q2[-1:9]"},
				{"w := \"héllo\"", "w2 := w[1:3]", "r = w2[0] + w2[1] + w2[2]", "r = char(w2[5])", "r = w[:1] + w[9:]"},
			}[r.Intn(3)]
		}},
		{name: "conversionEdges", lines: func(r *plan.Rng) []string {
			return []string{"r = " + []string{
				"int(fl * 1e308 * 10.0)", "int(0.0 / (fl - fl))", "char(int(fl * 1e18))", "string(char(1114111)) + string(char(55296))", "bytes(\"\") + bytes(0)", "int(\"9223372036854775808\")", "int(\"-9223372036854775809\")",
				"float(\"1e999\")", "float(\"nan\") + 1", "time(9223372036854775807)", "time(-9223372036854775807) + 1", "string(time(253402300800))", "int(time(0)) / int(time(0))", "bool(error(undefined))", "char(\"ab\")", "char(\"\")",
				"format(\"%c\", 1114112)", "format(\"%q\", -1)", "format(\"%d\", fl)", "format(\"%s\", [e, [e]])", "format(\"%v\", {a: {b: {c: [1, 2, {d: e}]}}})", "format(\"%5.2f|%-10s|%+d|%x|%o|%b\", fl, s, n, n, n, n)",
			}[r.Intn(22)]}
		}},
		{name: "ternaryAndLogic", lines: func(r *plan.Rng) []string {
			return []string{"r = " + pickVal(r) + " ? " + pickVal(r) + "() : " + pickVal(r) + "[0]", "r = (u || e) && f(1, 2)"}
		}},
	}
}

func genC05(r *plan.Rng) *plan.Plan {
	p := &plan.Plan{Shape: "hostile"}
	ids := c05Idioms()
	nIdioms := []int{1, 1, 1, 2, 2, 3}[r.Intn(6)]
	var body []string
	var names []string
	mods := map[string]bool{}
	needHost, loops, known := false, false, false
	for i := 0; i < nIdioms; i++ {
		id := ids[r.Intn(len(ids))]
		if id.known && !r.Chance(1, 4) {
			// keep the known-crash idioms rare: each costs a worker process
			id = ids[r.Intn(3)]
		}
		names = append(names, id.name)
		ls := id.lines(r)
		ls = c05Wrap(r, ls)
		// every idiom lives in its own guarded block (own scope, skipped in benign mode)
		body = append(body, "if mode == 1 {")
		for _, l := range ls {
			body = append(body, "\t"+l)
		}
		body = append(body, "}")
		for _, m := range id.mods {
			mods[m] = true
		}
		needHost = needHost || id.host
		loops = loops || id.loops
		known = known || id.known
	}
	note(p, "idioms", strings.Join(names, "+"))
	var src []string
	src = append(src, c05Prelude...)
	src = append(src, "garr := undefined", "gcy := undefined", "out := 0")
	src = append(src, body...)
	src = append(src, "out = inp + 1")
	sc := plan.Script{Src: lines(src...), Inputs: []plan.Input{
		{Name: "mode", Val: plan.GoInt(1)}, {Name: "inp", Val: plan.GoInt(int64(r.Range(1, 9)))},
		{Name: "inarr", Val: plan.Arr(plan.Int(1), plan.Int(2), plan.Int(3))},
		{Name: "h", Host: "id"},
	}}
	for _, m := range []string{"text", "json", "math", "fmt", "base64", "hex", "enum", "badmod"} {
		if mods[m] {
			sc.Modules = append(sc.Modules, m)
			if m == "badmod" {
				p.Modules = append(p.Modules, plan.Module{Name: m, Src: lines("v := 1", "w := [1, 2][5] + \"x\" - {}", "export {v: v}")})
			} else {
				p.Modules = append(p.Modules, plan.Module{Name: m, Std: true})
			}
		}
	}
	// knobs: allocation budget, small length limits
	if r.Chance(1, 5) {
		sc.HasLimit = true
		sc.MaxAllocs = int64(r.Range(0, 60))
		note(p, "allocBudget", fmt.Sprint(sc.MaxAllocs))
	}
	if r.Chance(1, 5) {
		p.Cfg.MaxStringLen = []int{8, 64, 1024}[r.Intn(3)]
		p.Cfg.MaxBytesLen = []int{8, 64, 1024}[r.Intn(3)]
	}
	p.Scripts = []plan.Script{sc}
	p.Slots = 2
	p.Cfg.TickNs = 1000
	p.Cfg.MaxDecisions = 60000

	// context of the hostile run
	cs := plan.CtxSpec{Kind: "background"}
	switch x := r.Intn(10); {
	case loops || x < 2:
		cs = plan.CtxSpec{Kind: "timeout", DNs: int64(r.Range(0, 3000))*1000 + 500}
		if !loops && r.Chance(1, 3) {
			cs = plan.CtxSpec{Kind: "cancel", Site: c07CallerSitesEarly[r.Intn(len(c07CallerSitesEarly))]}
		}
	case x == 2:
		cs = plan.CtxSpec{Kind: "cancel", Step: r.Range(0, 200)}
	case x == 3:
		cs = plan.CtxSpec{Kind: []string{"preCancelled", "deadlinePast", "childOfCancelled", "cancelledPastDeadline"}[r.Intn(4)]}
	}
	p.Ctxs = []plan.CtxSpec{cs}
	note(p, "ctx", cs.Kind)

	// injected faults
	if r.Chance(1, 4) {
		kind := []string{"runtimeError", "nilDeref", "error", "string", "fmtString", "customError", "wrappedError"}[r.Intn(7)]
		p.Faults = append(p.Faults, plan.Fault{Kind: plan.FaultPanicAtStep, Task: 0, Run: 0, Step: r.Range(0, 120), Val: kind})
	}
	if needHost && r.Chance(2, 3) {
		k := []string{plan.FaultHostErr, plan.FaultHostNil, plan.FaultHostPanic, plan.FaultHostBlock}[r.Intn(4)]
		f := plan.Fault{Kind: k, Task: 0, Run: 0, Call: r.Range(1, 4)}
		if k == plan.FaultHostPanic {
			f.Val = []string{"runtimeError", "nilDeref", "error", "string"}[r.Intn(4)]
		}
		if k == plan.FaultHostBlock {
			f.DNs = int64(r.Range(1, 100)) * 1000
		}
		p.Faults = append(p.Faults, f)
	}
	if r.Chance(1, 6) {
		p.Faults = append(p.Faults, plan.Fault{Kind: plan.FaultStallCaller, Task: 0, Run: 0, Site: []string{"RunCtxCancelSeen", "RunCtxAborted"}[r.Intn(2)], Steps: r.Range(0, 50)})
	}

	inB := int64(r.Range(10, 99))
	entry := plan.Op{Kind: plan.OpRunCtx, Obj: 1, Ctx: 1}
	ops := []plan.Op{{Kind: plan.OpCompile, Script: 0, Dst: 1}, entry}
	if r.Chance(1, 5) {
		ops = []plan.Op{{Kind: plan.OpScriptRunCtx, Script: 0, Dst: 1, Ctx: 1}}
		p.Shape = "hostile-script"
	}
	// after-care: exactly the calls the statement names
	ops = append(ops,
		plan.Op{Kind: plan.OpGet, Obj: 1, Name: "out", Raw: true},
		plan.Op{Kind: plan.OpGetAll, Obj: 1, Raw: true},
		plan.Op{Kind: plan.OpIsDefined, Obj: 1, Name: "r"},
		plan.Op{Kind: plan.OpSet, Obj: 1, Name: "mode", Val: vp(plan.GoInt(0))},
		plan.Op{Kind: plan.OpSet, Obj: 1, Name: "inp", Val: vp(plan.GoInt(inB))},
		plan.Op{Kind: plan.OpSet, Obj: 1, Name: "inarr", Val: vp(plan.Arr(plan.Int(4), plan.Int(5)))},
		plan.Op{Kind: plan.OpRunCtx, Obj: 1},
		plan.Op{Kind: plan.OpGet, Obj: 1, Name: "out", Raw: true},
	)
	p.Slots = 3
	p.Tasks = [][]plan.Op{ops}
	p.Tape = plan.GenTape(r.Fork(2), 32, []int{1, 3, 20, 200}[r.Intn(4)])
	if known {
		note(p, "expectKnown", "cyclic")
	}
	return p
}

// c05Wrap optionally moves an idiom into a function, closure, loop or module-like nesting.
func c05Wrap(r *plan.Rng, ls []string) []string {
	ind := func(ls []string) []string {
		out := make([]string, len(ls))
		for i, l := range ls {
			out[i] = "\t" + l
		}
		return out
	}
	switch r.Intn(8) {
	case 0:
		out := []string{"func() {"}
		out = append(out, ind(ls)...)
		return append(out, "}()")
	case 1:
		out := []string{"wrapf := func(q) {"}
		out = append(out, ind(ls)...)
		return append(out, "	return q", "}", "r = wrapf(wrapf(1))")
	case 2:
		out := []string{"for wi := 0; wi < 2; wi++ {"}
		out = append(out, ind(ls)...)
		return append(out, "}")
	case 3:
		out := []string{"for wk, wv in {p: 1, q: 2} {"}
		out = append(out, ind(ls)...)
		return append(out, "}")
	}
	return ls
}
