package gen

import (
	"strings"

	"verif/plan"
)

// C08 programs are built from fragments that touch everything clones share:
// constants of every type, compiled functions, source modules, builtin module
// tables, the file set (through run-time errors in different files), the
// formatter's pool. Every fragment's result is a pure function of the inputs
// inp (int), ins (string), inarr (array), inmap (map).

type c08Frag struct {
	name  string
	lines []string
	mods  []string
}

func c08Frags(r *plan.Rng) []c08Frag {
	return []c08Frag{
		{name: "strConstIndex", lines: []string{
			"s1 := \"héllo wörld\"",
			"c1 := s1[inp % 9]",
			"c2 := s1[1:4]",
			"n1 := 0",
			"for i, ch in s1 {",
			"	n1 += i",
			"}"}},
		{name: "strConstInFunc", lines: []string{
			"pick := func(i) {",
			"	tbl := \"αβγδεζηθ\"",
			"	return tbl[i % 8]",
			"}",
			"p1 := pick(inp)",
			"p2 := pick(inp + 3)"}},
		{name: "strIterConcat", lines: []string{
			"acc := \"\"",
			"for ch in \"çà-et-là\" {",
			"	acc += string(ch) + ins",
			"	if len(acc) > 60 {",
			"		break",
			"	}",
			"}"}},
		{name: "numConstIdentity", lines: []string{
			"z := 0",
			"y := 7",
			"w := y + z",
			"q := 3.5 + 0.0",
			"kc := 'a' + 0",
			"w2 := w * 1 + inp",
			"w3 := y + inp",
			"w4 := 1000 - inp",
			"q2 := 3.5 * float(inp)",
			"s5 := \"préfix-\" + ins",
			"kc2 := 'a' + inp % 20",
			"bt := true && (inp > 2)",
			"w5 := y + z + 7 + 1000 + 3.5"}},
		{name: "identityOps", lines: []string{
			"e0 := \"cönst\" + \"\"",
			"e1 := e0 + ins",
			"e2 := [1, 2, 3] + []",
			"e3 := bytes(\"abc\") + bytes(\"\")",
			"e4 := e3 + bytes(ins)",
			"tm := time(86400) + 0",
			"tm2 := tm + inp",
			"e5 := -(-7) + inp",
			"e6 := 2.5 * 1.0 + float(inp)",
			"e7 := 'x' + 0 - 0 + inp % 3"}},
		{name: "closures", lines: []string{
			"mk := func(a) {",
			"	return func(b) {",
			"		return a + b + inp",
			"	}",
			"}",
			"f1 := mk(1)",
			"f2 := mk(10)",
			"r3 := f1(2) + f2(3)"}},
		{name: "recursion", lines: []string{
			"fib := func(n) {",
			"	if n < 2 {",
			"		return n",
			"	}",
			"	return fib(n-1) + fib(n-2)",
			"}",
			"r4 := fib(inp % 7 + 3)"}},
		{name: "tailLoop", lines: []string{
			"cnt := func(n, acc) {",
			"	if n == 0 {",
			"		return acc",
			"	}",
			"	return cnt(n-1, acc+n)",
			"}",
			"r4t := cnt(inp % 11 + 5, 0)"}},
		{name: "srcModule", mods: []string{"mymod"}, lines: []string{
			"mymod := import(\"mymod\")",
			"r5 := mymod.twice(inp) + mymod.base",
			"r5s := mymod.name[inp % 5]",
			"r5l := mymod.label(ins)"}},
		{name: "srcModuleExportsMutated", mods: []string{"mymod"}, lines: []string{
			"mx := import(\"mymod\")",
			"mx.tbl[0] = inp",
			"mx.cfg.n = inp + 1",
			"mx.cfg.l[0] = ins",
			"my := import(\"mymod\")",
			"r5m := mx.tbl[0] + my.tbl[0] + mx.cfg.n + my.cfg.n + len(mx.cfg.l[0])"}},
		{name: "litModuleMutated", mods: []string{"litmod"}, lines: []string{
			"lm := import(\"litmod\")",
			"lm.hits[0] += inp",
			"lm.names.a = ins",
			"lm2 := import(\"litmod\")",
			"r17 := lm.hits[0] + lm2.hits[0] + len(lm.names) + len(lm2.names) + lm.k"}},
		{name: "selfCapturingClosure", lines: []string{
			"mkw := func() {",
			"	walk := func(k) {",
			"		return k == 0 ? 0 : 1 + walk(k - 1)",
			"	}",
			"	return walk",
			"}",
			"wk := mkw()",
			"r16 := wk(inp % 6)",
			"wk2 := copy(wk)",
			"r16b := wk2(3)"}},
		{name: "srcModule2", mods: []string{"mymod", "othermod"}, lines: []string{
			"mm1 := import(\"mymod\")",
			"om := import(\"othermod\")",
			"r5b := om.via(inp) + mm1.twice(1)",
			"r5c := om.greet[1:3]"}},
		{name: "textModule", mods: []string{"text"}, lines: []string{
			"text := import(\"text\")",
			"r6 := text.re_replace(\"l+\", ins, \"L\")",
			"r6b := text.to_upper(ins) + text.repeat(\"ab\", inp % 3)",
			"r6c := text.re_match(\"^h.*\", ins)",
			"r6d := text.split(\"a,b,\" + ins, \",\")",
			"r6e := text.pad_left(ins, 12, \"é\")"}},
		{name: "fmtJsonMath", mods: []string{"fmt", "json", "math"}, lines: []string{
			"fmt := import(\"fmt\")",
			"json := import(\"json\")",
			"math := import(\"math\")",
			"r7 := fmt.sprintf(\"%05d|%s|%v|%.2f\", inp, ins, [1, inp], math.sqrt(float(inp)))",
			"r7j := string(json.encode({a: [inp, ins, 1.5]}))",
			"r7d := json.decode(\"[1, 2, {\\\"k\\\": \" + string(inp) + \"}]\")",
			"r7m := math.max(float(inp), 2.5) + math.pi"}},
		{name: "simModule", mods: []string{"simmod"}, lines: []string{
			"sm := import(\"simmod\")",
			"r8 := sm.k + inp",
			"r8s := sm.s[2]",
			"r8t := 0",
			"for v in sm.tbl {",
			"	r8t += v",
			"}",
			"r8h := sm.id(inp) + 1",
			"r8n := 0",
			"for i, ch in sm.s {",
			"	r8n += i",
			"}",
			"r8k := 0",
			"for k, v in sm {",
			"	r8k += len(k)",
			"}"}},
		{name: "moduleValues", mods: []string{"simmod"}, lines: []string{
			"smv := import(\"simmod\")",
			"v1 := smv.by + bytes(ins)",
			"v2 := string(smv.by[1:4]) + string(smv.by[inp % 5])",
			"v3 := smv.tm + inp",
			"v4 := (smv.tm - inp) < smv.tm",
			"v5 := is_error(smv.er) ? smv.er.value + ins : \"\"",
			"v6 := smv.mp.a + inp + len(smv.mp.l) + smv.mp.l[1]",
			"v7 := smv.ch + inp % 3",
			"v8 := smv.f * float(inp) + smv.k",
			"v9 := format(\"%v|%s|%d\", smv.mp.l, smv.s, smv.k)",
			"v10 := copy(smv.mp)",
			"v10.a = inp",
			"v11 := smv.b5 + bytes(ins[0:1])",
			"v12 := smv.b5 + bytes(\"Z\")",
			"v13 := string(v11) + string(v12) + string(smv.b5)"}},
		{name: "closuresNoFree", lines: []string{
			"mk0 := func() {",
			"	return func(b) {",
			"		return b * 2 + 1",
			"	}",
			"}",
			"g0 := mk0()",
			"g1 := mk0()",
			"r3z := g0(inp) + g1(inp + 1)",
			"hof := func(fn, x) { return fn(fn(x)) }",
			"r3y := hof(g0, inp)"}},
		{name: "freezeModule", mods: []string{"simmod"}, lines: []string{
			"smf := import(\"simmod\")",
			"fz := freeze(smf)",
			"fz2 := freeze([smf, {m: smf}])",
			"r8f := type_name(smf.tbl) + \"|\" + type_name(fz.tbl) + \"|\" + type_name(smf.mp.l) + \"|\" + type_name(fz2[1].m.mp.l)",
			"r8g := smf.tbl + [inp]",
			"r8i := is_array(smf.mp.l) && !is_array(fz.mp.l)"}},
		{name: "moduleTableAppend", mods: []string{"simmod"}, lines: []string{
			"sma := import(\"simmod\")",
			"r8a := sma.tbl + [inp]",
			"r8b := append(sma.tbl, inp)",
			"r8c := r8a[len(r8a) - 1] + r8b[len(r8b) - 1]"}},
		{name: "stdModuleIterate", mods: []string{"math", "text"}, lines: []string{
			"mathm := import(\"math\")",
			"textm := import(\"text\")",
			"r8m := 0",
			"for k, v in mathm {",
			"	r8m += 1",
			"}",
			"for k, v in textm {",
			"	r8m += len(k)",
			"}"}},
		{name: "mutateInputs", lines: []string{
			"inarr[0] = inp",
			"inarr2 := append(inarr, inp)",
			"inmap.k = inp",
			"inmap[ins] = len(inarr)",
			"r9 := inarr[0] + inmap.k"}},
		{name: "mutateNested", lines: []string{
			"inarr[3][0] = inp",
			"inmap.nest.x = inp + 1",
			"inmap.nest.l[1] = ins",
			"r9n := inarr[3][0] + inmap.nest.x + len(inmap.nest.l[1])"}},
		{name: "mutateInsideImmutable", lines: []string{
			"inimm.limits.n = inp",
			"inimm.list[0] = ins",
			"inimarr[0][0] = inp + 1",
			"r9i := inimm.limits.n + inimarr[0][0] + len(inimm.list[0])"}},
		{name: "variadicInPlace", lines: []string{
			"vf := func(a, ...xs) {",
			"	splice(xs, 0, 0, a, inp)",
			"	return len(xs) + xs[1]",
			"}",
			"r15 := vf(1) + vf(2)",
			"r15b := vf(1, 2, 3) + vf(0, []...)",
			"r15x := func(...xs) { return xs }()",
			"r15y := append(r15x, ins)"}},
		{name: "format", lines: []string{
			"r10 := format(\"%05d|%s|%v|%q|%x\", inp, ins, [1, 2], ins, inp)",
			"r10b := format(\"%8.3f|%-6d|%c\", float(inp) / 3.0, inp, 'x' + inp % 3)"}},
		{name: "containers", lines: []string{
			"arrc := [1, 2, [3, \"x\"], {k: \"v\"}]",
			"r11 := arrc[2][1] + arrc[3].k + string(inp)",
			"imc := immutable({a: [1, 2], b: \"bb\"})",
			"r11b := imc.a[1] + len(imc.b)",
			"r11c := copy(arrc)",
			"r11c[0] = inp"}},
		{name: "bytesAndChars", lines: []string{
			"by := bytes(\"abc\" + ins)",
			"r12 := by[inp % 3]",
			"r12b := string(by[1:])",
			"r12c := char(65 + inp % 20)"}},
		{name: "errorsValues", lines: []string{
			"ev := error(\"bad \" + ins)",
			"r13 := is_error(ev) ? ev.value : \"\"",
			"r13b := error({code: inp})"}},
		{name: "failMain", lines: []string{
			"nf := 5",
			"if inp % 4 == 1 {",
			"	nf(ins)",
			"}"}},
		{name: "failModule", mods: []string{"mymod"}, lines: []string{
			"fm := import(\"mymod\")",
			"if inp % 4 == 2 {",
			"	fm.fail(inp)",
			"}"}},
		{name: "failOtherModule", mods: []string{"mymod", "othermod"}, lines: []string{
			"fo := import(\"othermod\")",
			"if inp % 4 == 3 {",
			"	fo.fail2(ins)",
			"}"}},
		{name: "failIndex", lines: []string{
			"arrf := [1, 2, 3]",
			"if inp % 5 == 0 {",
			"	arrf[inp + 10] = 1",
			"}"}},
	}
}

var c08ModSrc = map[string]string{
	"mymod": lines(
		"undefined_here := 3",
		"base := 100",
		"name := \"mödule\"",
		"twice := func(x) {",
		"	return x * 2",
		"}",
		"label := func(s) {",
		"	pre := \"[λ]\"",
		"	return string(pre[1]) + s + pre[0:1]",
		"}",
		"fail := func(x) {",
		"	t := [1, 2]",
		"	return t[x + 100] + undefined_here(x)",
		"}",
		"tbl := [1, 2, 3]",
		"cfg := {n: 0, l: [0]}",
		"export {base: base, name: name, twice: twice, label: label, fail: fail, tbl: tbl, cfg: cfg}"),
	// no module-level variables: the export is one literal with mutable insides
	"litmod": lines(
		"export {hits: [0], names: {}, k: 1}"),
	"othermod": lines(
		"mymod := import(\"mymod\")",
		"greet := \"grüß\"",
		"via := func(x) {",
		"	return mymod.twice(x) + 1",
		"}",
		"fail2 := func(s) {",
		"	return s.nope.deeper",
		"}",
		"export {greet: greet, via: via, fail2: fail2}"),
}

func genC08(r *plan.Rng) *plan.Plan {
	if r.Chance(1, 3) {
		return genC08Single(r)
	}
	return genC08Clones(r, false)
}

// Pool-sharing episodes (job property "C08P", run in the ordinary build): the
// clones format values through host objects whose String method is a scheduling
// point, so one thread can be in the middle of a format call while another
// performs whole ones, and nothing empties the pools in between. The maximum
// string length is small and one fragment exceeds it for some inputs: an object
// that is handed back to a pool on a failure path stays there for later calls.
var c08PoolFrags = []c08Frag{
	{name: "nestedFormat", lines: []string{
		"sf1 := format(\"%v|%s|%d\", stz, ins, inp)",
		"sf2 := format(\"%d:%v:%v\", inp, [stz2, ins], stz)",
		"sf3 := string(stz2) + format(\"[%s]\", stz)",
		"sf4 := format(\"%5d|%-8s|%x|%q\", inp, ins, inp + 255, ins)"}},
	{name: "failFormatLimit", lines: []string{
		"lf := \"\"",
		"if inp % 3 == 1 {",
		"	lf = format(\"%0300d|%v\", inp, stz)",
		"}"}},
}

func genC08Pool(r *plan.Rng) *plan.Plan {
	p := genC08Clones(r, true)
	p.Cfg.Race = false
	p.Cfg.PoolShare = true
	p.Cfg.MaxStringLen = 160
	return p
}

func genC08Clones(r *plan.Rng, pool bool) *plan.Plan {
	p := &plan.Plan{Shape: "clones"}
	p.Cfg.Race = true
	p.Cfg.MaxDecisions = 60000
	src, mods, names := c08Program(r)
	inputs := c08Inputs(r, 0)
	if pool {
		rp := r.Fork(11)
		var pre []string
		for _, f := range c08PoolFrags {
			if strings.HasPrefix(f.name, "fail") {
				src += lines(f.lines...)
			} else {
				pre = append(pre, f.lines...)
			}
			names = append(names, f.name)
		}
		src = lines(pre...) + src
		inputs = append(inputs,
			plan.Input{Name: "stz", Val: plan.Value{T: "obj:stringer", I: int64(rp.Range(1, 9))}},
			plan.Input{Name: "stz2", Val: plan.Value{T: "obj:stringer", I: int64(rp.Range(1, 9))}})
	}
	// a closure that survives from one run to the next in a host-declared variable:
	// after Clone, the original and its clones call "the same" counter
	kept := !pool && r.Fork(13).Chance(1, 25)
	if kept {
		src = lines(
			"if !keep {",
			"	keep = func() {",
			"		n := 0",
			"		return func() {",
			"			n += 1",
			"			return n",
			"		}",
			"	}()",
			"}",
			"r14 := keep() + keep()") + src
		names = append(names, "keptClosure")
		inputs = append(inputs, plan.Input{Name: "keep", Val: plan.Nil()})
	}
	note(p, "frags", strings.Join(names, "+"))
	c08Modules(p, mods)
	sc := plan.Script{Src: src, Modules: mods, Inputs: inputs}
	p.Scripts = []plan.Script{sc}

	k := r.Range(2, 5)
	p.Slots = k + 2
	setup := []plan.Op{{Kind: plan.OpCompile, Script: 0, Dst: 0}}
	ranOrig := r.Chance(1, 3) || kept
	if ranOrig {
		setup = append(setup, plan.Op{Kind: plan.OpRun, Obj: 0})
		note(p, "origRanFirst", "1")
	}
	for i := 1; i <= k; i++ {
		from := 0
		if i > 1 && r.Chance(1, 4) {
			from = r.Range(1, i-1) // clone of a clone
		}
		setup = append(setup, plan.Op{Kind: plan.OpClone, Obj: from, Dst: i})
	}
	p.Setup = setup
	replDone := false
	for i := 1; i <= k; i++ {
		var ops []plan.Op
		runs := 1
		if r.Chance(1, 4) {
			runs = 2
		}
		for j := 0; j < runs; j++ {
			for _, in := range c08Inputs(r, i*10+j) {
				// containers are sometimes left as cloned: the clone's own deep copy
				// of the original's input is then what the script mutates in place
				if (in.Name == "inarr" || in.Name == "inmap" || in.Name == "inimm" || in.Name == "inimarr") && r.Chance(1, 2) {
					continue
				}
				v := in.Val
				ops = append(ops, plan.Op{Kind: plan.OpSet, Obj: i, Name: in.Name, Val: &v})
			}
			if !replDone && hasMod(mods, "simmod") && r.Chance(1, 5) {
				// documented pattern: replace a builtin module on one's own clone
				// (one that has not been cloned itself) while siblings are running
				leaf := true
				for _, op := range setup {
					if op.Kind == plan.OpClone && op.Obj == i {
						leaf = false
					}
				}
				if leaf {
					ops = append(ops, plan.Op{Kind: plan.OpReplMod, Obj: i, Name: "simmod", Host: "simmod2"})
					replDone = true
					note(p, "replmod", "1")
				}
			}
			if r.Chance(1, 2) {
				ops = append(ops, plan.Op{Kind: plan.OpRun, Obj: i})
			} else {
				ops = append(ops, plan.Op{Kind: plan.OpRunCtx, Obj: i})
			}
			ops = append(ops, plan.Op{Kind: plan.OpGetAll, Obj: i})
		}
		if r.Chance(1, 5) {
			ops = append(ops, plan.Op{Kind: plan.OpIsDefined, Obj: i, Name: "inp"}, plan.Op{Kind: plan.OpSize, Obj: i})
		}
		p.Tasks = append(p.Tasks, ops)
	}
	// cancellation of one clone's run must not matter to its siblings: one task
	// gets a cancellable context on its first RunContext (ops after it are not
	// compared for that task: the run may stop anywhere)
	if r.Chance(1, 4) {
		rc := r.Fork(7)
		ti := rc.Intn(len(p.Tasks))
		runIdx := 0
		for oi := range p.Tasks[ti] {
			op := &p.Tasks[ti][oi]
			if op.Kind == plan.OpRun {
				runIdx++
			}
			if op.Kind != plan.OpRunCtx {
				continue
			}
			spec := plan.CtxSpec{Kind: "cancel", Step: rc.Range(0, 400)}
			switch rc.Intn(5) {
			case 0:
				spec = plan.CtxSpec{Kind: "cancel", Site: []string{"VMRunExit", "VMGoEnd", "RunCtxSpawned", "VMGoStart"}[rc.Intn(4)]}
			case 1:
				spec = plan.CtxSpec{Kind: "preCancelled"}
			}
			p.Ctxs = append(p.Ctxs, spec)
			op.Ctx = len(p.Ctxs)
			if rc.Chance(1, 2) {
				p.Faults = append(p.Faults, plan.Fault{Kind: plan.FaultStallCaller, Task: ti, Run: runIdx, Site: []string{"RunCtxCancelSeen", "RunCtxAborted"}[rc.Intn(2)], Steps: []int{-1, 0, 5, 60}[rc.Intn(4)]})
			}
			param(p, "cancelTask", int64(ti))
			param(p, "cancelOp", int64(oi))
			// the same clone is run again afterwards, and so is a sibling
			for _, in := range c08Inputs(rc, 900+ti) {
				v := in.Val
				p.Tasks[ti] = append(p.Tasks[ti], plan.Op{Kind: plan.OpSet, Obj: op.Obj, Name: in.Name, Val: &v})
			}
			p.Tasks[ti] = append(p.Tasks[ti], plan.Op{Kind: plan.OpRun, Obj: op.Obj}, plan.Op{Kind: plan.OpGetAll, Obj: op.Obj})
			other := (ti + 1) % len(p.Tasks)
			oobj := p.Tasks[other][0].Obj
			p.Tasks[other] = append(p.Tasks[other], plan.Op{Kind: plan.OpRun, Obj: oobj}, plan.Op{Kind: plan.OpGetAll, Obj: oobj})
			note(p, "cancel", spec.Kind)
			break
		}
	}
	p.Tape = plan.GenTape(r.Fork(3), 80, []int{1, 3, 10, 40, 200}[r.Intn(5)])
	return p
}

func hasMod(ms []string, m string) bool {
	for _, x := range ms {
		if x == m {
			return true
		}
	}
	return false
}

func c08Program(r *plan.Rng) (string, []string, []string) {
	frags := c08Frags(r)
	n := r.Range(2, 5)
	var src, names []string
	modSet := map[string]bool{}
	used := map[int]bool{}
	var fails []c08Frag
	for len(names) < n {
		i := r.Intn(len(frags))
		if used[i] {
			continue
		}
		used[i] = true
		f := frags[i]
		names = append(names, f.name)
		for _, m := range f.mods {
			modSet[m] = true
		}
		if strings.HasPrefix(f.name, "fail") {
			fails = append(fails, f) // failing statements go last so that the rest still runs
			continue
		}
		src = append(src, f.lines...)
	}
	for _, f := range fails {
		src = append(src, f.lines...)
	}
	src = append(src, "done := inp + 1")
	var mods []string
	for _, m := range []string{"mymod", "othermod", "litmod", "text", "fmt", "json", "math", "simmod"} {
		if modSet[m] {
			mods = append(mods, m)
		}
	}
	return lines(src...), mods, names
}

func c08Modules(p *plan.Plan, mods []string) {
	for _, m := range mods {
		switch {
		case c08ModSrc[m] != "":
			p.Modules = append(p.Modules, plan.Module{Name: m, Src: c08ModSrc[m]})
		case m == "simmod":
			p.Modules = append(p.Modules, plan.Module{Name: m, Host: "simmod"})
		default:
			p.Modules = append(p.Modules, plan.Module{Name: m, Std: true})
		}
	}
}

func c08Inputs(r *plan.Rng, salt int) []plan.Input {
	words := []string{"hello", "héllo", "hall", "wörld", "llama", "hill"}
	inp := int64(r.Range(0, 40))
	return []plan.Input{
		{Name: "inp", Val: plan.GoInt(inp)},
		{Name: "ins", Val: plan.Str(words[r.Intn(len(words))])},
		{Name: "inarr", Val: plan.Arr(plan.Int(int64(salt)), plan.Int(2), plan.Str("z"), plan.Arr(plan.Int(10), plan.Int(20)))},
		{Name: "inmap", Val: plan.Map(map[string]plan.Value{"k": plan.Int(int64(salt)), "j": plan.Str("v"),
			"nest": plan.Map(map[string]plan.Value{"x": plan.Int(1), "l": plan.Arr(plan.Int(1), plan.Str("q"))})})},
		// immutable at the top, mutable inside (immutability is shallow)
		{Name: "inimm", Val: plan.Value{T: "obj:immmap", M: map[string]plan.Value{"limits": plan.Map(map[string]plan.Value{"n": plan.Int(int64(salt))}), "list": plan.Arr(plan.Str("a"), plan.Int(2))}}},
		{Name: "inimarr", Val: plan.Value{T: "obj:immarray", A: []plan.Value{plan.Arr(plan.Int(int64(salt))), plan.Int(2)}}},
	}
}

// genC08Single: several threads use ONE compiled object through its API.
func genC08Single(r *plan.Rng) *plan.Plan {
	p := &plan.Plan{Shape: "single"}
	p.Cfg.Race = true
	p.Cfg.MaxDecisions = 60000
	src, mods, names := c08Program(r)
	note(p, "frags", strings.Join(names, "+"))
	c08Modules(p, mods)
	p.Scripts = []plan.Script{{Src: src, Modules: mods, Inputs: c08Inputs(r, 0)}}
	nt := r.Range(2, 3)
	p.Slots = 2 + nt
	obj := 0
	setup := []plan.Op{{Kind: plan.OpCompile, Script: 0, Dst: 0}}
	if r.Chance(1, 2) {
		setup = append(setup, plan.Op{Kind: plan.OpClone, Obj: 0, Dst: 1})
		obj = 1
	}
	if r.Chance(1, 2) {
		setup = append(setup, plan.Op{Kind: plan.OpRun, Obj: obj})
	}
	p.Setup = setup
	names2 := []string{"inp", "ins", "done", "inarr", "inmap", "inimm", "inimarr", "nosuch"}
	for t := 0; t < nt; t++ {
		var ops []plan.Op
		own := 2 + t // slot for this task's private clone
		hasOwn := false
		n := r.Range(2, 6)
		for j := 0; j < n; j++ {
			switch x := r.Intn(12); {
			case x < 2:
				ops = append(ops, plan.Op{Kind: plan.OpGet, Obj: obj, Name: names2[r.Intn(len(names2))], Late: true})
			case x < 4:
				ops = append(ops, plan.Op{Kind: plan.OpGetAll, Obj: obj, Late: true})
			case x < 5:
				ops = append(ops, plan.Op{Kind: plan.OpIsDefined, Obj: obj, Name: names2[r.Intn(len(names2))]})
			case x < 7:
				ins := c08Inputs(r, t*10+j)
				in := ins[r.Intn(len(ins))]
				v := in.Val
				ops = append(ops, plan.Op{Kind: plan.OpSet, Obj: obj, Name: in.Name, Val: &v})
			case x < 9:
				if r.Chance(1, 2) {
					ops = append(ops, plan.Op{Kind: plan.OpRun, Obj: obj})
				} else {
					ops = append(ops, plan.Op{Kind: plan.OpRunCtx, Obj: obj})
				}
			case x < 10:
				ops = append(ops, plan.Op{Kind: plan.OpSize, Obj: obj})
			default:
				ops = append(ops, plan.Op{Kind: plan.OpClone, Obj: obj, Dst: own})
				hasOwn = true
				if r.Chance(1, 2) {
					ops = append(ops, plan.Op{Kind: plan.OpRun, Obj: own}, plan.Op{Kind: plan.OpGetAll, Obj: own})
				}
			}
		}
		_ = hasOwn
		p.Tasks = append(p.Tasks, ops)
	}
	p.Tape = plan.GenTape(r.Fork(3), 80, []int{1, 3, 10, 40, 200}[r.Intn(5)])
	return p
}

// C08FragmentPlans returns, for every fragment that is meant to run to its end,
// a plan whose program is that fragment alone (generator self-test: a fragment
// that fails half-way silently hides its remaining lines from every episode).
func C08FragmentPlans() map[string]*plan.Plan {
	out := map[string]*plan.Plan{}
	r := plan.NewRng(1)
	all := append(append([]c08Frag{}, c08Frags(r)...), c08PoolFrags...)
	for _, f := range all {
		if strings.HasPrefix(f.name, "fail") {
			continue
		}
		p := &plan.Plan{Shape: "clones", Prop: "C08"}
		c08Modules(p, append([]string{}, f.mods...))
		for _, m := range f.mods {
			// modules imported by source modules
			if m == "othermod" && !hasMod(f.mods, "mymod") {
				c08Modules(p, []string{"mymod"})
			}
		}
		inputs := append(c08Inputs(r, 0),
			plan.Input{Name: "stz", Val: plan.Value{T: "obj:stringer", I: 3}},
			plan.Input{Name: "stz2", Val: plan.Value{T: "obj:stringer", I: 4}})
		mods := append([]string{}, f.mods...)
		if hasMod(mods, "othermod") && !hasMod(mods, "mymod") {
			mods = append(mods, "mymod")
		}
		p.Scripts = []plan.Script{{Src: lines(f.lines...), Modules: mods, Inputs: inputs}}
		p.Slots = 2
		out[f.name] = p
	}
	return out
}
