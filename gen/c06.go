package gen

import (
	"strings"
	"unicode/utf8"

	"verif/plan"
)

// C06 workloads. Three shapes:
//   alloc     – allocation ladders; the budget N is swept over every allocation
//               index (the library's own fault injector), plus "one more K"
//               twins and calibrated literal ladders
//   strlen    – string/bytes growers run under a grid of (MaxStringLen, MaxBytesLen)
//   recursion – recursion ladders of chosen depth and frame width

type c06Stmt struct {
	kind  string // operation kind K (documented object-creating operation)
	lines func(r *plan.Rng, id int) []string
}

func c06Kinds() []c06Stmt {
	v := func(id int) string { return "v" + itoa(id) }
	one := func(f func(r *plan.Rng, id int) string) func(*plan.Rng, int) []string {
		return func(r *plan.Rng, id int) []string { return []string{f(r, id)} }
	}
	return []c06Stmt{
		{"arrayLit", one(func(r *plan.Rng, id int) string { return v(id) + " := [n, " + itoa(r.Intn(9)) + "]" })},
		{"arrayLitEmpty", one(func(r *plan.Rng, id int) string { return v(id) + " := []" })},
		{"mapLit", one(func(r *plan.Rng, id int) string { return v(id) + " := {k: n}" })},
		{"mapLitEmpty", one(func(r *plan.Rng, id int) string { return v(id) + " := {}" })},
		{"errorVal", one(func(r *plan.Rng, id int) string { return v(id) + " := error(n)" })},
		{"immutableArr", one(func(r *plan.Rng, id int) string { return v(id) + " := immutable(arr)" })},
		{"immutableMap", one(func(r *plan.Rng, id int) string { return v(id) + " := immutable(mp)" })},
		{"sliceArr", one(func(r *plan.Rng, id int) string { return v(id) + " := arr[1:2]" })},
		{"sliceImmArr", one(func(r *plan.Rng, id int) string { return v(id) + " := iarr[0:1]" })},
		{"sliceStr", one(func(r *plan.Rng, id int) string { return v(id) + " := str[1:3]" })},
		{"sliceBytes", one(func(r *plan.Rng, id int) string { return v(id) + " := byt[0:1]" })},
		{"arithInt", one(func(r *plan.Rng, id int) string {
			return v(id) + " := n " + []string{"+", "-", "*", "/", "%", "&", "|", "^", "<<", ">>", "&^"}[r.Intn(11)] + " 3"
		})},
		{"arithFloat", one(func(r *plan.Rng, id int) string {
			return v(id) + " := fl " + []string{"+", "-", "*", "/"}[r.Intn(4)] + " 2.0"
		})},
		{"arithStr", one(func(r *plan.Rng, id int) string { return v(id) + " := str + \"x\"" })},
		{"arithChar", one(func(r *plan.Rng, id int) string { return v(id) + " := chr + 1" })},
		{"arithArr", one(func(r *plan.Rng, id int) string { return v(id) + " := arr + arr" })},
		{"arithBytes", one(func(r *plan.Rng, id int) string { return v(id) + " := byt + byt" })},
		{"compare", one(func(r *plan.Rng, id int) string {
			return v(id) + " := n " + []string{"<", ">", "<=", ">="}[r.Intn(4)] + " 3"
		})},
		{"compareFloat", one(func(r *plan.Rng, id int) string {
			return v(id) + " := fl " + []string{"<", ">", "<=", ">="}[r.Intn(4)] + " 3.5"
		})},
		{"compareStr", one(func(r *plan.Rng, id int) string {
			return v(id) + " := str " + []string{"<", ">", "<=", ">="}[r.Intn(4)] + " \"m\""
		})},
		{"compareChar", one(func(r *plan.Rng, id int) string {
			return v(id) + " := chr " + []string{"<", ">", "<=", ">="}[r.Intn(4)] + " 'm'"
		})},
		{"arithIntFloat", one(func(r *plan.Rng, id int) string {
			return v(id) + " := n " + []string{"+", "-", "*", "/"}[r.Intn(4)] + " 2.5"
		})},
		{"arithTime", one(func(r *plan.Rng, id int) string { return v(id) + " := time(n) + 5" })},
		{"unaryMinus", one(func(r *plan.Rng, id int) string { return v(id) + " := -n" })},
		{"unaryMinusFloat", one(func(r *plan.Rng, id int) string { return v(id) + " := -fl" })},
		{"unaryCompl", one(func(r *plan.Rng, id int) string { return v(id) + " := ^n" })},
		{"builtinCall", one(func(r *plan.Rng, id int) string {
			return v(id) + " := " + []string{"len(arr)", "string(n)", "int(fl)", "is_int(n)", "type_name(arr)", "copy(arr)", "append(arr, 1)", "char(65)", "bytes(3)", "float(n)", "bool(n)", "format(\"%d\", n)", "range(0, 3)", "freeze(arr)"}[r.Intn(14)]
		})},
		{"hostCall", one(func(r *plan.Rng, id int) string { return v(id) + " := h(n)" })},
		{"closure", func(r *plan.Rng, id int) []string {
			return []string{"mk" + itoa(id) + " := func(q) {", "	return func() {", "		return q", "	}", "}", v(id) + " := mk" + itoa(id) + "(n)"}
		}},
		{"forInArr", func(r *plan.Rng, id int) []string { return []string{"for x" + itoa(id) + " in arr {", "}"} }},
		{"forInMap", func(r *plan.Rng, id int) []string { return []string{"for x" + itoa(id) + " in mp {", "}"} }},
		{"forInStr", func(r *plan.Rng, id int) []string { return []string{"for x" + itoa(id) + " in str {", "}"} }},
		{"forInBytes", func(r *plan.Rng, id int) []string { return []string{"for x" + itoa(id) + " in byt {", "}"} }},
		{"forInImmArr", func(r *plan.Rng, id int) []string { return []string{"for x" + itoa(id) + " in iarr {", "}"} }},
		{"forInImmMap", func(r *plan.Rng, id int) []string { return []string{"for x" + itoa(id) + " in imp {", "}"} }},
	}
}

func c06Inputs() []plan.Input {
	return []plan.Input{
		{Name: "n", Val: plan.GoInt(5)},
		{Name: "fl", Val: plan.Float(2.5)},
		{Name: "str", Val: plan.Str("héllo")},
		{Name: "chr", Val: plan.Rune('c')},
		{Name: "byt", Val: plan.Bytes([]byte("abcd"))},
		{Name: "arr", Val: plan.Arr(plan.Int(1), plan.Int(2), plan.Int(3))},
		{Name: "mp", Val: plan.Map(map[string]plan.Value{"k": plan.Int(1)})},
		{Name: "iarr", Val: plan.Value{T: "obj:immarray", A: []plan.Value{plan.Int(1), plan.Int(2)}}},
		{Name: "imp", Val: plan.Value{T: "obj:immmap", M: map[string]plan.Value{"k": plan.Int(1)}}},
		{Name: "h", Host: "id"},
		{Name: "stz", Val: plan.Value{T: "obj:stringer", I: 7}},
	}
}

func genC06(r *plan.Rng) *plan.Plan {
	var p *plan.Plan
	switch x := r.Intn(10); {
	case x < 6:
		p = genC06Alloc(r)
	case x < 9:
		p = genC06Strlen(r)
	default:
		p = genC06Recursion(r)
	}
	// the runs of one episode follow each other in one process: what the
	// formatter's pool hands from one run to the next must not depend on when
	// the collector happens to clear it
	p.Cfg.NoGC = true
	return p
}

func genC06Alloc(r *plan.Rng) *plan.Plan {
	p := &plan.Plan{Shape: "alloc"}
	kinds := c06Kinds()
	id := 0
	var body []string
	var names []string
	emit := func(n int, indent string) {
		for i := 0; i < n; i++ {
			k := kinds[r.Intn(len(kinds))]
			id++
			names = append(names, k.kind)
			for _, l := range k.lines(r, id) {
				body = append(body, indent+l)
			}
		}
	}
	calibrated := r.Chance(1, 5)
	if calibrated {
		// k literal statements and nothing else: exactly k object creations
		k := r.Range(1, 30)
		for i := 0; i < k; i++ {
			id++
			body = append(body, []string{"c" + itoa(id) + " := [1]", "c" + itoa(id) + " := {a: 1}", "c" + itoa(id) + " := error(1)", "c" + itoa(id) + " := []"}[r.Intn(4)])
		}
		param(p, "calibrated", int64(k))
		names = append(names, "calibrated"+itoa(k))
	} else {
		emit(r.Range(0, 6), "")
		switch r.Intn(7) {
		case 0: // loop
			body = append(body, "for i := 0; i < "+itoa(r.Range(1, 12))+"; i++ {")
			emit(r.Range(1, 4), "\t")
			body = append(body, "}")
			names = append(names, "loop")
		case 1: // function called several times
			body = append(body, "fn := func(a) {")
			save := body
			body = nil
			emit(r.Range(1, 4), "\t")
			inner := body
			body = append(save, inner...)
			body = append(body, "	return a", "}")
			for i := 0; i < r.Range(1, 4); i++ {
				body = append(body, "fn("+itoa(i)+")")
			}
			names = append(names, "func")
		case 3: // self tail call: the frame is reused, the budget must not be
			body = append(body, "tc := func(i, acc) {", "	if i == 0 {", "		return acc", "	}")
			save := body
			body = nil
			emit(r.Range(1, 2), "\t")
			inner := body
			body = append(save, inner...)
			body = append(body, "	return tc(i - 1, acc + [i])", "}", "tcr := tc("+itoa(r.Range(1, 9))+", [])")
			names = append(names, "tailcall")
		case 4: // spread and variadic calls
			body = append(body, "vf := func(a, ...rest) {")
			save := body
			body = nil
			emit(r.Range(1, 3), "\t")
			inner := body
			body = append(save, inner...)
			body = append(body, "	return len(rest) + a", "}", "vr1 := vf(1, 2, 3)", "vr2 := vf([1, 2, 3, 4]...)", "vr3 := vf(1)")
			names = append(names, "variadic")
		case 2: // source module
			id++
			p.Modules = append(p.Modules, plan.Module{Name: "lad", Src: lines("t1 := [1, 2]", "t2 := {a: t1}", "t3 := t1[0:1]", "f := func(x) { return [x] }", "export {f: f, t: t3}")})
			body = append(body, "lad := import(\"lad\")", "lv"+itoa(id)+" := lad.f(n)")
			names = append(names, "module")
		}
		emit(r.Range(0, 4), "")
	}
	// some ladders end in their own run-time error (after the twin operation)
	tailStmts := []string{"done := 1"}
	if !calibrated && r.Chance(1, 6) {
		tailStmts = []string{"nfz := 5", "nfz(n)", "done := 1"}
		names = append(names, "ownError")
	}
	note(p, "kinds", strings.Join(names, "+"))
	base := lines(append(append([]string{}, body...), tailStmts...)...)
	// twin: one more operation of kind K appended
	k := kinds[r.Intn(len(kinds))]
	id++
	kl := k.lines(r, id)
	kname := k.kind
	if r.Chance(1, 3) {
		// the same operation inside a function literal that is called once
		wrapped := []string{"wrapk := func() {"}
		for _, l := range kl {
			wrapped = append(wrapped, "\t"+l)
		}
		kl = append(wrapped, "}", "wrapk()")
		kname += "/inFunc"
	}
	twin := lines(append(append(append([]string{}, body...), kl...), tailStmts...)...)
	note(p, "K", kname)
	mods := []string{}
	for _, m := range p.Modules {
		mods = append(mods, m.Name)
	}
	p.Scripts = []plan.Script{
		{Src: base, Inputs: c06Inputs(), Modules: mods},
		{Src: twin, Inputs: c06Inputs(), Modules: mods},
	}
	return p
}

func genC06Strlen(r *plan.Rng) *plan.Plan {
	p := &plan.Plan{Shape: "strlen"}
	growers := [][]string{
		{"g1 := str", "for i := 0; i < R; i++ {", "	g1 += g1", "}"},
		{"g2 := str + n", "g2b := str + fl", "g2d := str + chr", "g2e := str + arr", "g2f := str + mp"},
		{"g3 := bytes(str) + bytes(str)", "for i := 0; i < R; i++ {", "	g3 += g3", "}"},
		{"g4 := bytes(R * 9)", "g4b := string(g4)", "g4c := bytes(g4b + g4b)"},
		{"g5 := format(\"%10d|%-20s|%v\", n, str, arr)", "g5b := format(\"%*d\", R * 7, n)", "g5c := format(\"%.3f|%8.2f\", fl, fl)", "g5d := format(\"%q|%x|%X\", str, str, byt)"},
		{"g6 := string(arr)", "g6b := string(mp)", "g6c := string(error(str))", "g6d := string(chr)", "g6e := string(byt)", "g6f := string(fl)", "g6g := string(iarr) + string(imp)"},
		{"g7 := \"\"", "for c in str {", "	g7 += string(c) + \"-\"", "}", "for i := 0; i < R; i++ {", "	g7 = g7 + g7[0:3]", "}"},
		{"g8 := []", "for i := 0; i < R; i++ {", "	g8 = append(g8, str + string(i))", "}", "g8s := string(g8)", "g8f := format(\"%v|%s\", g8, g8)"},
		{"g9 := {k: str}", "for i := 0; i < R; i++ {", "	g9.k = g9.k + str", "}", "g9s := format(\"%v\", g9)"},
		{"g10 := format(\"%0\" + string(R * 11) + \"d\", n)", "g10b := format(\"%-\" + string(R * 5) + \"s|\", str)", "g10c := format(\"%.\" + string(R * 3) + \"f\", fl)"},
		{"g11 := byt", "for i := 0; i < R; i++ {", "	g11 = g11 + bytes(str)", "}", "g11b := bytes(string(g11) + str)"},
		{"g12 := str[0:2] + str[1:] + string(str[0])", "g12b := byt[1:] + byt[:2]", "for i := 0; i < R; i++ {", "	g12 = g12 + g12[1:]", "}"},
		{"g13 := error(str + str)", "g13b := string(g13)", "g13c := format(\"%v%v\", g13, g13)", "g13d := [g13b + g13b]"},
		{"g15 := format(\"%x\", str)", "g15b := format(\"%X\", byt)"},
		{"g16 := format(\"% x\", str)", "g16b := format(\"%#x\", byt)", "g16c := format(\"% #X\", str + str)"},
		{"g17 := format(\"%-\" + string(R * 9 + 1) + \"d\", n)", "g17b := format(\"%-\" + string(R * 9 + 1) + \"s\", str)"},
		{"g18 := format(\"%-\" + string(R * 7 + 1) + \"v\", arr)", "g18b := format(\"%-\" + string(R * 7 + 1) + \"q\", str)", "g18c := format(\"%-\" + string(R * 7 + 1) + \"x\", str)"},
		{"g19 := format(\"%\" + string(R * 9 + 1) + \"d\", n)", "g19b := format(\"%0\" + string(R * 9 + 1) + \"x\", n)", "g19c := format(\"%\" + string(R * 9 + 1) + \"x\", byt)"},
		{"g20 := format(\"%c%c%c\", chr, chr, chr)", "g20b := format(\"%U\", chr)", "g20c := format(\"%q\", chr)", "g20d := format(\"%s\", byt)", "g20e := format(\"%e|%g\", fl, fl)", "g20f := format(\"%+d|%t|%v\", n, true, undefined)"},
		{"g21 := format(\"%[2]*[1]d\", n, R * 6 + 1)", "g21b := format(\"%.*f\", R, fl)", "g21c := format(\"%-*d\", R * 6 + 1, n)"},
		{"g22 := format(\"%v\", [str, [str, byt], {k: str}])", "g22b := format(\"%s\", error(str + str))", "g22c := format(\"%d\", [n, n, n])"},
		{"g23 := \"\"", "for i := 0; i < R * 2 + 1; i++ {", "	g23 += char(55296 + i)", "}"},
		{"g24 := str[0:R % 6]", "for i := 0; i < R + 2; i++ {", "	g24 += 'é'", "	g24 = g24 + char(1114112 + i)", "	g24 += char(-1 - i)", "}"},
		{"g25 := \"abcdef\" + \"gh\"[0:R % 3]", "g25b := g25 + char(56000)", "g25c := g25 + 'z'", "g25d := g25 + '€'", "g25e := string(char(57343)) + g25"},
		{"g26 := \"0123456789abcdefghij\"", "g26b := {abcdefghijklmnopqrstuvwxyz: 1}", "g26c := `raw 0123456789abcdefghijklmnopqrstuvwxyz0123456789abcdefghijklmnopqrstuvwxyz`"},
		{"g27 := string(time(n))", "g27b := format(\"%v\", time(n))", "g27c := \"t\" + time(n)", "g27d := string(error(time(n)))"},
		{"g28 := format(\"%q\", \"a\\\"b\\\"c\\\"\")", "g28b := format(\"%q\", \"t\\tn\\n\")", "g28c := format(\"%+q\", str)", "g28d := format(\"%q\", bytes(\"\\x00\\x01\\x02\"))", "g28e := format(\"%#q\", \"back`tick\")", "g28f := format(\"%q\", str[0:2])"},
		{"g29 := format(\"%+q\", str + str)", "g29b := format(\"x%q\", \"\\\\\\\\\")", "g29c := format(\"%q%q\", \"\\\"\", \"\\\"\")", "g29d := format(\"%+q\", chr + 200)"},
		{"g30 := format(\"%q\", \"\\\"\\\"\\\"\\\"\\\"\\\"\")", "g30z := 1"},
		{"q31 := \"\"", "for i := 0; i < R * 7; i++ {", "	q31 += \"\\\"\"", "}", "g31 := format(\"%q\", q31)"},
		{"q32 := \"\"", "for i := 0; i < R * 3; i++ {", "	q32 += \"é\\n\"", "}", "g32 := format(\"%+q\", q32)", "g32b := format(\"%q\", bytes(q32))"},
		{"g34 := type_name(immutable([1]))", "g34b := type_name(func() {})", "g34c := type_name(len)", "g34d := [type_name(immutable({})), type_name(undefined), type_name(stz)]", "g34e := type_name(g34d) + type_name(bytes(1))"},
		{"g33 := format(\"%v|%v\", stz, stz)", "g33b := format(\"[%s]\", stz)", "g33c := string(stz) + format(\"%d\", n)", "g33d := format(\"%v\", [stz, n])"},
		{"g14 := string(n * 1000000) + string(fl) + string(true) + string(undefined)", "g14b := format(\"%t|%c|%U\", true, chr, chr)"},
	}
	// random format statements: flag set x width x precision x verb x operand (sv/bv are
	// inputs whose length is drawn per plan, see below)
	fr := r.Fork(0xf0)
	var rf []string
	for k, nf := 0, fr.Range(1, 3); k < nf; k++ {
		spec := "%"
		for _, fl := range "+-# 0" {
			if fr.Chance(1, 4) {
				spec += string(fl)
			}
		}
		if fr.Chance(1, 3) {
			spec += itoa(fr.Range(0, 40))
		}
		if fr.Chance(1, 4) {
			spec += "." + itoa(fr.Range(0, 12))
		}
		spec += string("vsdxXqcUeftbo"[fr.Intn(13)])
		pre, post := []string{"", "", "ab", "|"}[fr.Intn(4)], []string{"", "", "|", "yz"}[fr.Intn(4)]
		opd := []string{"sv", "bv", "sv", "bv", "str", "byt", "n", "fl", "chr", "arr", "true", "sv + sv", "[sv, bv]", "error(sv)"}[fr.Intn(14)]
		rf = append(rf, "g35"+string(rune('a'+k))+" := format(\""+pre+spec+post+"\", "+opd+")")
	}
	growers = append(growers, rf,
		[]string{"g36 := bv + bv", "g36b := bytes(sv)", "g36c := string(bv)", "g36d := bytes(sv + sv)", "g36e := sv + sv + sv", "g36f := bytes(sv) + bv"},
		[]string{"g37 := bv[len(bv)/2:] + bv", "g37b := string(bv) + sv", "g37c := bytes(len(sv) + R)", "g37d := [sv + string(bv)]", "g37e := sv + chr + n", "g37f := bytes(string(bv) + string(bv))"})
	n := r.Range(1, 3)
	var body, names []string
	used := map[int]bool{}
	for len(names) < n {
		i := r.Intn(len(growers))
		if used[i] {
			continue
		}
		used[i] = true
		names = append(names, "g"+itoa(i+1))
		body = append(body, c06Thin(fr, growers[i])...)
	}
	R := r.Range(0, 9)
	src := strings.ReplaceAll(lines(append(body, "done := 1")...), "R", itoa(R))
	note(p, "kinds", strings.Join(names, "+")+"/R"+itoa(R))
	// two more operands whose lengths differ from plan to plan, and three more maxima: a
	// window such as "2n fits, 3n-1 does not" is met only when operand length and maximum
	// line up, which the fixed inputs and the fixed grid do for a few n only
	svLen, bvLen := fr.Range(0, 40), fr.Range(0, 40)
	sv := strings.Repeat("héllo wörld, ", 4)[:svLen]
	for !utf8.ValidString(sv) {
		svLen++
		sv = strings.Repeat("héllo wörld, ", 4)[:svLen]
	}
	bv := make([]byte, bvLen)
	for i := range bv {
		bv[i] = byte(fr.Intn(256))
	}
	ins := append(c06Inputs(), plan.Input{Name: "sv", Val: plan.Str(sv)}, plan.Input{Name: "bv", Val: plan.Bytes(bv)})
	param(p, "gridS1", int64(fr.Range(1, 40)))
	param(p, "gridS2", int64(fr.Range(41, 300)))
	param(p, "gridY1", int64(fr.Range(1, 80)))
	p.Scripts = []plan.Script{{Src: src, Inputs: ins}}
	return p
}

// c06Thin drops, from a grower that is a list of single-line definitions, a random subset of
// the lines whose name no later kept line mentions: a statement that always fails under a
// small maximum otherwise hides every statement after it.
func c06Thin(r *plan.Rng, g []string) []string {
	for _, l := range g {
		if strings.HasPrefix(l, "for ") || strings.HasPrefix(l, "}") || strings.HasPrefix(l, "\t") || !strings.Contains(l, " := ") {
			return g
		}
	}
	if !r.Chance(2, 3) {
		return g
	}
	keep := make([]bool, len(g))
	kept := 0
	for i := len(g) - 1; i >= 0; i-- {
		name := g[i][:strings.Index(g[i], " := ")]
		needed := false
		for j := i + 1; j < len(g); j++ {
			if keep[j] && strings.Contains(g[j][strings.Index(g[j], " := "):], name) {
				needed = true
			}
		}
		if needed || r.Chance(1, 2) || (i == 0 && kept == 0) {
			keep[i] = true
			kept++
		}
	}
	var out []string
	for i, l := range g {
		if keep[i] {
			out = append(out, l)
		}
	}
	return out
}

func genC06Recursion(r *plan.Rng) *plan.Plan {
	p := &plan.Plan{Shape: "recursion"}
	depth := []int{10, 500, 1000, 1021, 1022, 1023, 1024, 1025, 1500, 2047, 2048, 5000, 100000}[r.Intn(13)]
	width := []int{0, 0, 1, 2, 8, 30, -1, -2, -3, -3, -4, -5, -5}[r.Intn(13)]
	param(p, "depth", int64(depth))
	param(p, "width", int64(width))
	var src string
	if width == -3 {
		// one spread call with more arguments than the operand stack may hold
		n := []int{10, 500, 2000, 2040, 2047, 2048, 2049, 2100, 3000, 5000}[r.Intn(10)]
		callee := []string{"cnt", "len2", "append"}[r.Intn(3)]
		call := callee + "(big...)"
		if callee == "append" {
			call = "len(append([-1], big...))"
		}
		src = lines(
			"cnt := func(...a) { return len(a) }",
			"len2 := func(...a) { s := 0; for x in a { s += 1 }; return s }",
			"big := range(0, "+itoa(n)+")",
			"out := "+call)
		param(p, "spreadN", int64(n))
		if callee == "append" {
			param(p, "spreadN", int64(n+1))
		}
		note(p, "kinds", "spread/"+callee+"/n"+itoa(n))
		p.Scripts = []plan.Script{{Src: src, Inputs: c06Inputs()}}
		return p
	}
	if width == -4 {
		// recursion that forwards K arguments by spread: deep enough, the operand
		// stack runs out inside the spread; the result is K or an error, nothing else
		k := []int{3, 40, 200}[r.Intn(3)]
		src = lines(
			"fw := func(n, ...a) {",
			"	if n == 0 {",
			"		return len(a)",
			"	}",
			"	return fw(n - 1, a...) + 0",
			"}",
			"out := fw("+itoa(depth%1200)+", range(0, "+itoa(k)+")...)")
		param(p, "forwardK", int64(k))
		note(p, "kinds", "rec/forward/k"+itoa(k)+"/d"+itoa(depth%1200))
		p.Scripts = []plan.Script{{Src: src, Inputs: c06Inputs()}}
		return p
	}
	if width == -5 {
		// D nested calls that are not tail calls, then a tail-recursive spin in the
		// deepest one: a tail call reuses its frame, so the spin's length cannot
		// decide whether the frames suffice. Two scripts: spin 0 and spin 50.
		d := depth
		if d > 3000 {
			d = 1024 - r.Intn(6)
		}
		mk := func(spin int) string {
			return lines(
				"cnt := 0",
				"spin := func(i) {",
				"	if i == 0 {",
				"		return 0",
				"	}",
				"	return spin(i - 1)",
				"}",
				"dive := func() {",
				"	cnt += 1",
				"	if cnt < "+itoa(d)+" {",
				"		dive()",
				"	} else {",
				"		spin("+itoa(spin)+")",
				"	}",
				"	return 1",
				"}",
				"dive()",
				"out := cnt")
		}
		param(p, "tailSpin", 50)
		param(p, "depth", int64(d))
		note(p, "kinds", "rec/tailspin/d"+itoa(d))
		p.Scripts = []plan.Script{{Src: mk(0), Inputs: c06Inputs()}, {Src: mk(50), Inputs: c06Inputs()}}
		return p
	}
	if width == -1 {
		// variadic recursion through a spread call
		src = lines(
			"f := func(...a) {",
			"	if a[0] == 0 {",
			"		return 0",
			"	}",
			"	return 1 + f([a[0] - 1, 7]...)",
			"}",
			"out := f("+itoa(depth)+", 7)")
		note(p, "kinds", "rec/variadic/d"+itoa(depth))
		p.Scripts = []plan.Script{{Src: src, Inputs: c06Inputs()}}
		return p
	}
	if width == -2 {
		// recursion of a closure with free variables, creating a closure per level
		src = lines(
			"mk := func(step) {",
			"	g := 0",
			"	g = func(d) {",
			"		if d <= 0 {",
			"			return 0",
			"		}",
			"		h := func() { return d - step }",
			"		return 1 + g(h())",
			"	}",
			"	return g",
			"}",
			"out := mk(1)("+itoa(depth)+")")
		note(p, "kinds", "rec/closure/d"+itoa(depth))
		p.Scripts = []plan.Script{{Src: src, Inputs: c06Inputs()}}
		return p
	}
	if width == 0 {
		// frames occupy one operand slot each: the frame limit is what runs out
		src = lines(
			"cnt := 0",
			"f := func() {",
			"	cnt += 1",
			"	if cnt < "+itoa(depth)+" {",
			"		f()",
			"	}",
			"	return 1",
			"}",
			"f()",
			"out := cnt")
		param(p, "oneSlot", 1)
	} else {
		var locals []string
		for i := 0; i < width; i++ {
			locals = append(locals, "	l"+itoa(i)+" := d")
		}
		ls := []string{"f := func(d) {"}
		ls = append(ls, locals...)
		ls = append(ls, "	if d == 0 {", "		return 0", "	}", "	return 1 + f(d - 1)", "}", "out := f("+itoa(depth)+")")
		src = lines(ls...)
	}
	note(p, "kinds", "rec/d"+itoa(depth)+"/w"+itoa(width))
	p.Scripts = []plan.Script{{Src: src, Inputs: c06Inputs()}}
	return p
}
