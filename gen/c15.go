package gen

import (
	"encoding/json"
	"fmt"
	"strings"

	"verif/plan"
)

// C15 workload: API histories over a tiny effect DSL whose meaning is fixed in
// the reference model (sim/model.go) by closed-form code.

// C15Stmt is one DSL statement. Kinds:
//
//	const   Name := C                (first) / Name = C
//	copyx   gx := inx
//	addi    gi := ini + C
//	adds    gs := ins + "S"
//	inci    gi += C                  (only after addi)
//	bump    ini = ini + C            (the script assigns an input)
//	arr     arr := [ini, C]; arr[1] = C2; n := len(arr)
//	map     m := {}; m.k = C; m.j = ins
//	loop    acc := 0; for acc < C { acc += 3 }
//	tick    tick(C)                  (host call: fault / yield point)
//	decl    late := undefined        (declared, assigned only if reached)
//	fail    nf := 5; nf()            (run-time error)
type C15Stmt struct {
	K  string `json:"k"`
	C  int64  `json:"c,omitempty"`
	C2 int64  `json:"c2,omitempty"`
	S  string `json:"s,omitempty"`
}

type C15Script struct {
	Stmts []C15Stmt `json:"stmts"`
}

type C15Meta struct {
	Scripts []C15Script `json:"scripts"`
}

func (s *C15Script) Source() string {
	var ls []string
	seen := map[string]bool{}
	asg := func(name string) string {
		if seen[name] {
			return name + " = "
		}
		seen[name] = true
		return name + " := "
	}
	for _, st := range s.Stmts {
		switch st.K {
		case "const":
			ls = append(ls, asg("cst")+fmt.Sprint(st.C))
		case "copyx":
			ls = append(ls, asg("gx")+"inx")
		case "addi":
			ls = append(ls, asg("gi")+"ini + "+fmt.Sprint(st.C))
		case "adds":
			ls = append(ls, asg("gs")+"ins + \""+st.S+"\"")
		case "inci":
			ls = append(ls, "gi += "+fmt.Sprint(st.C))
		case "bump":
			ls = append(ls, "ini = ini + "+fmt.Sprint(st.C))
		case "arr":
			ls = append(ls, asg("arr")+"[ini, "+fmt.Sprint(st.C)+"]", "arr[1] = "+fmt.Sprint(st.C2), asg("n")+"len(arr)")
		case "map":
			ls = append(ls, asg("m")+"{}", "m.k = "+fmt.Sprint(st.C), "m.j = ins")
		case "loop":
			ls = append(ls, asg("acc")+"0", "for acc < "+fmt.Sprint(st.C)+" {", "	acc += 3", "}")
		case "loopi":
			// a block-scoped loop variable takes a global slot of its own without being a named global
			ls = append(ls, asg("acc2")+"0", "for i := 0; i < "+fmt.Sprint(st.C)+"; i++ {", "	acc2 += i", "}")
		case "ifblk":
			ls = append(ls, asg("blk")+"0", "if tmp := ini; tmp != 0 {", "	blk = tmp + "+fmt.Sprint(st.C), "}")
		case "fnassign":
			// a global assigned from inside a function
			ls = append(ls, asg("gfa")+"0", asg("setg")+"func(v) { gfa = v }", "setg("+fmt.Sprint(st.C)+")")
		case "shadow":
			// a block-scoped variable with the name of an input: the input itself must stay as it is
			ls = append(ls, asg("shw")+"0", "if shw == 0 {", "	inx := "+fmt.Sprint(st.C), "	shw = inx", "}")
		case "fshadow":
			// a function parameter with the name of an input
			ls = append(ls, asg("sf")+"func(ins) { return ins + \"z\" }", asg("gsf")+"sf(\""+st.S+"\")")
		case "tick":
			ls = append(ls, "tick("+fmt.Sprint(st.C)+")")
		case "decl":
			ls = append(ls, asg("late")+fmt.Sprint(st.C))
		case "fail":
			ls = append(ls, asg("nf")+"5", "nf()")
		}
	}
	return strings.Join(ls, "\n") + "\n"
}

type c15g struct {
	r    *plan.Rng
	uniq int64
}

func (g *c15g) u() int64 { g.uniq++; return 1000 + g.uniq }

func (g *c15g) script() C15Script {
	var s C15Script
	hasGi := false
	n := g.r.Range(2, 8)
	for i := 0; i < n; i++ {
		switch x := g.r.Intn(14); {
		case x == 0:
			s.Stmts = append(s.Stmts, C15Stmt{K: "const", C: g.u()})
		case x <= 2:
			s.Stmts = append(s.Stmts, C15Stmt{K: "copyx"})
		case x <= 4:
			s.Stmts = append(s.Stmts, C15Stmt{K: "addi", C: g.u()})
			hasGi = true
		case x == 5:
			s.Stmts = append(s.Stmts, C15Stmt{K: "adds", S: fmt.Sprintf("s%d", g.u())})
		case x == 6 && hasGi:
			s.Stmts = append(s.Stmts, C15Stmt{K: "inci", C: g.r.Int63n(9) + 1})
		case x == 7:
			s.Stmts = append(s.Stmts, C15Stmt{K: "bump", C: g.r.Int63n(5) + 1})
		case x == 8:
			s.Stmts = append(s.Stmts, C15Stmt{K: "arr", C: g.u(), C2: g.u()})
		case x == 9:
			s.Stmts = append(s.Stmts, C15Stmt{K: "map", C: g.u()})
		case x == 10:
			s.Stmts = append(s.Stmts, C15Stmt{K: "loop", C: int64(g.r.Range(0, 40))})
		case x == 11:
			s.Stmts = append(s.Stmts, C15Stmt{K: "tick", C: g.u()})
		case x == 12 && g.r.Chance(1, 3):
			if g.r.Chance(1, 3) {
				s.Stmts = append(s.Stmts, C15Stmt{K: "fnassign", C: g.u()})
			} else if g.r.Chance(1, 2) {
				s.Stmts = append(s.Stmts, C15Stmt{K: "shadow", C: g.u()})
			} else {
				s.Stmts = append(s.Stmts, C15Stmt{K: "fshadow", S: fmt.Sprintf("q%d", g.u())})
			}
		case x == 12:
			if g.r.Chance(1, 2) {
				s.Stmts = append(s.Stmts, C15Stmt{K: "loopi", C: int64(g.r.Range(0, 12))})
			} else {
				s.Stmts = append(s.Stmts, C15Stmt{K: "ifblk", C: g.u()})
			}
		default:
			s.Stmts = append(s.Stmts, C15Stmt{K: "decl", C: g.u()})
		}
	}
	if g.r.Chance(1, 6) {
		s.Stmts = append(s.Stmts, C15Stmt{K: "fail"})
		if g.r.Chance(1, 2) {
			s.Stmts = append(s.Stmts, C15Stmt{K: "decl", C: g.u()}) // never reached
		}
	}
	return s
}

// value draws a Go value of a supported (or, rarely, unsupported) type; every
// value is unique so that each read is attributable to one write.
func (g *c15g) value(depth int) plan.Value {
	k := g.u()
	if g.r.Chance(1, 6) {
		// boundary values of the coercion table (these are not unique: only used where uniqueness is not needed)
		return []plan.Value{
			plan.Str("+5"), plan.Str("1_000"), plan.Str("5 "), plan.Str("-0"), plan.Str(".5"), plan.Str("Inf"), plan.Bytes([]byte{0xff, 0xfe, 'a'}), plan.Int(1099511627776 + 65),
			plan.Str("12"), plan.Str(" 12"), plan.Str("1.5"), plan.Str("-7"), plan.Str(""), plan.Str("1e3"), plan.Str("0x10"), plan.Str("true"),
			plan.Float(-2.75), plan.Float(0), plan.Float(1e18), plan.Int(0), plan.Int(-5), plan.Int(1 << 40), plan.Rune(0), plan.Rune('é'),
			plan.Int(9223372036854775807), plan.Int(-9223372036854775807 - 1), plan.Int(9007199254740993), plan.Float(-0.5), plan.Float(2147483648.5), plan.GoInt(-1),
			plan.Bytes([]byte{}), plan.Bytes([]byte("42")), plan.Value{T: "array"}, plan.Map(nil), plan.Bool(false), plan.Bool(true),
			plan.Value{T: "nan"},
		}[g.r.Intn(37)]
	}
	switch x := g.r.Intn(22); {
	case x == 0:
		return plan.Nil()
	case x <= 2:
		return plan.GoInt(k)
	case x <= 4:
		return plan.Int(k)
	case x == 5:
		return plan.Float(float64(k) + 0.5)
	case x <= 7:
		return plan.Str(fmt.Sprintf("v%d", k))
	case x == 8:
		return plan.Bool(k%2 == 0)
	case x == 9:
		return plan.Rune(rune('a' + k%26))
	case x == 10:
		return plan.Value{T: "byte", I: 65 + k%26}
	case x == 11:
		return plan.Bytes([]byte(fmt.Sprintf("b%d", k)))
	case x == 12:
		return plan.Value{T: "error", S: fmt.Sprintf("err%d", k)}
	case x == 13:
		return plan.Value{T: "time", I: 1600000000 + k}
	case x <= 15 && depth < 2:
		n := g.r.Intn(3)
		a := make([]plan.Value, n)
		for i := range a {
			a[i] = g.value(depth + 1)
		}
		return plan.Value{T: "array", A: a}
	case x <= 17 && depth < 2:
		m := map[string]plan.Value{}
		for i := 0; i < g.r.Intn(3); i++ {
			m[fmt.Sprintf("k%d", i)] = g.value(depth + 1)
		}
		return plan.Map(m)
	case x == 18 && depth == 0:
		return plan.Value{T: []string{"obj:immarray", "obj:objarray"}[g.r.Intn(2)], A: []plan.Value{plan.Int(k), plan.Str("e")}}
	case x == 19 && depth == 0:
		return plan.Value{T: []string{"obj:immmap", "obj:objmap"}[g.r.Intn(2)], M: map[string]plan.Value{"k": plan.Int(k)}}
	case x == 20:
		return plan.Value{T: []string{"uint", "int16", "uint64", "float32", "struct", "strslice", "intslice"}[g.r.Intn(7)], I: k, F: 1.5, S: "x"}
	case x == 21:
		return plan.Value{T: []string{"nilbytes", "nilmap", "nilslice", "nilerror"}[g.r.Intn(4)]}
	}
	return plan.Int(k)
}

func (g *c15g) setOp(obj int) plan.Op {
	switch x := g.r.Intn(10); {
	case x < 3:
		return plan.Op{Kind: plan.OpSet, Obj: obj, Name: "ini", Val: vp(plan.GoInt(g.u()))}
	case x < 5:
		return plan.Op{Kind: plan.OpSet, Obj: obj, Name: "ins", Val: vp(plan.Str(fmt.Sprintf("h%d", g.u())))}
	case x < 8:
		return plan.Op{Kind: plan.OpSet, Obj: obj, Name: "inx", Val: vp(g.value(0))}
	case x < 9:
		return plan.Op{Kind: plan.OpSet, Obj: obj, Name: []string{"cst", "gx", "late", "acc", "acc2", "blk", "i", "format", "x03", "x16", "shw"}[g.r.Intn(11)], Val: vp(g.value(0))}
	}
	return plan.Op{Kind: plan.OpSet, Obj: obj, Name: []string{"nosuch", "", "Ini", "inx "}[g.r.Intn(4)], Val: vp(plan.Int(g.u()))}
}

var c15Names = []string{"", "Ini", "INS", "gfa", "setg", "x00", "x07", "x08", "x15", "x16", "x17", "shw", "gsf", "sf", "format", "ini", "ins", "inx", "cst", "gx", "gi", "gs", "arr", "n", "m", "acc", "acc2", "blk", "i", "tmp", "late", "nf", "extra", "nosuch", "tick"}

func (g *c15g) readOp(obj int) plan.Op {
	switch g.r.Intn(5) {
	case 0:
		return plan.Op{Kind: plan.OpGetAll, Obj: obj}
	case 1:
		return plan.Op{Kind: plan.OpIsDefined, Obj: obj, Name: c15Names[g.r.Intn(len(c15Names))]}
	}
	return plan.Op{Kind: plan.OpGet, Obj: obj, Name: c15Names[g.r.Intn(len(c15Names)-1)]}
}

func c15Inputs(g *c15g) []plan.Input {
	return []plan.Input{
		{Name: "ini", Val: plan.GoInt(g.u())},
		{Name: "ins", Val: plan.Str(fmt.Sprintf("h%d", g.u()))},
		{Name: "inx", Val: g.value(0)},
		{Name: "tick", Host: "tick"},
	}
}

func genC15(r *plan.Rng) *plan.Plan {
	g := &c15g{r: r}
	if r.Chance(1, 3) {
		return genC15Conc(g)
	}
	p := &plan.Plan{Shape: "seq"}
	p.Cfg.TickNs = 1000
	p.Cfg.MaxDecisions = 60000
	var meta C15Meta
	ns := r.Range(1, 2)
	for i := 0; i < ns; i++ {
		sc := g.script()
		meta.Scripts = append(meta.Scripts, sc)
		ps := plan.Script{Src: sc.Source()}
		if r.Chance(1, 8) {
			ps.HasLimit, ps.MaxAllocs = true, int64(r.Range(0, 12))
		}
		p.Scripts = append(p.Scripts, ps) // inputs are added by ops
	}
	faulty := r.Chance(1, 3)
	p.Slots = 6
	var ops []plan.Op
	// declare the inputs of every script first (possibly with an extra one that is removed again)
	for si := 0; si < ns; si++ {
		for _, in := range c15Inputs(g) {
			op := plan.Op{Kind: plan.OpAdd, Script: si, Name: in.Name}
			if in.Host != "" {
				op.Host = in.Host
			} else {
				v := in.Val
				op.Val = &v
			}
			ops = append(ops, op)
		}
		if r.Chance(1, 3) {
			ops = append(ops, plan.Op{Kind: plan.OpAdd, Script: si, Name: "extra", Val: vp(g.value(0))})
		}
		if r.Chance(1, 5) {
			// many variables: more names than any small fixed table
			for k := 0; k < 18; k++ {
				ops = append(ops, plan.Op{Kind: plan.OpAdd, Script: si, Name: fmt.Sprintf("x%02d", k), Val: vp(plan.Int(g.u()))})
			}
		}
		if r.Chance(1, 4) {
			// a host variable that happens to be named like a builtin function
			ops = append(ops, plan.Op{Kind: plan.OpAdd, Script: si, Name: "format", Val: vp(g.value(0))})
		}
	}
	live := []int{} // slots holding an object
	n := r.Range(6, 30)
	runs := 0
	for len(ops) < n+4*ns {
		x := r.Intn(20)
		switch {
		case x < 3 || len(live) == 0:
			si := r.Intn(ns)
			dst := r.Intn(p.Slots)
			switch r.Intn(4) {
			case 0:
				ops = append(ops, plan.Op{Kind: plan.OpScriptRun, Script: si, Dst: dst})
				runs++
			case 1:
				ops = append(ops, plan.Op{Kind: plan.OpScriptRunCtx, Script: si, Dst: dst})
				runs++
			default:
				ops = append(ops, plan.Op{Kind: plan.OpCompile, Script: si, Dst: dst})
			}
			live = append(live, dst)
		case x < 5:
			si := r.Intn(ns)
			if r.Chance(1, 2) {
				ops = append(ops, plan.Op{Kind: plan.OpAdd, Script: si, Name: []string{"inx", "ini", "extra", "ins"}[r.Intn(4)], Val: vp(g.value(0))})
				// keep ini/ins well-typed for the DSL's arithmetic
				last := &ops[len(ops)-1]
				if last.Name == "ini" {
					last.Val = vp(plan.GoInt(g.u()))
				} else if last.Name == "ins" {
					last.Val = vp(plan.Str(fmt.Sprintf("h%d", g.u())))
				}
			} else {
				ops = append(ops, plan.Op{Kind: plan.OpRemove, Script: si, Name: []string{"extra", "extra", "format", "x17", "x03", "inx", "nosuch"}[r.Intn(7)]})
				if r.Chance(1, 2) {
					// recompile at once and look at the new object before it runs
					dst := r.Intn(p.Slots)
					ops = append(ops, plan.Op{Kind: plan.OpCompile, Script: si, Dst: dst}, g.readOp(dst), g.readOp(dst))
					live = append(live, dst)
				}
			}
		case x < 9:
			ops = append(ops, g.setOp(live[r.Intn(len(live))]))
		case x < 14:
			ops = append(ops, g.readOp(live[r.Intn(len(live))]))
		case x < 17:
			obj := live[r.Intn(len(live))]
			if r.Chance(1, 2) {
				ops = append(ops, plan.Op{Kind: plan.OpRun, Obj: obj})
			} else {
				op := plan.Op{Kind: plan.OpRunCtx, Obj: obj}
				if faulty && r.Chance(1, 2) {
					p.Ctxs = append(p.Ctxs, plan.CtxSpec{Kind: "cancel", Step: r.Range(0, 60)})
					op.Ctx = len(p.Ctxs)
				}
				ops = append(ops, op)
			}
			runs++
		case x < 18:
			dst := r.Intn(p.Slots)
			ops = append(ops, plan.Op{Kind: plan.OpClone, Obj: live[r.Intn(len(live))], Dst: dst})
			live = append(live, dst)
		default:
			a, b := g.u(), g.u()
			pa := plan.Map(map[string]plan.Value{"a": plan.GoInt(a), "b": plan.Int(b), "s": plan.Str(fmt.Sprintf("e%d", a)),
				"ab": plan.Int(a + 7), "abc": plan.Int(a + 9), "cpy": plan.Int(b + 3),
				// tengo objects inside Go containers arrive as they are (Object -> Object, no conversion)
				"im": plan.Arr(plan.Value{T: "obj:immarray", A: []plan.Value{plan.Int(a)}}, plan.Value{T: "obj:immmap", M: map[string]plan.Value{"k": plan.Int(b)}}, plan.Arr(plan.Int(b))),
				"mm": plan.Map(map[string]plan.Value{"k": plan.Value{T: "obj:immarray", A: []plan.Value{plan.Int(b)}}, "j": plan.Arr(plan.Int(a))})})
			expr := []string{"a + b * 2", "s + \"x\"", "[a, b][1]", "a > b ? a : b", "{k: a}.k", "len(s) + a", "ab - a", "abc - ab + a", "cpy + 1",
				"'a' + 1", "bytes(s)", "undefined", "error(s)", "[a, {k: b}]", "immutable([a])", "time(b)", "a / 2.0", "s[1]", "{}", "[]", "a == b",
				"type_name(im[0]) + \"|\" + type_name(im[1]) + \"|\" + type_name(im[2])", "is_immutable_array(mm.k) && is_array(mm.j) && !is_immutable_array(mm.j)", "im[0][0] + im[1].k + mm.k[0]"}[r.Intn(24)]
			ops = append(ops, plan.Op{Kind: plan.OpEval, Expr: expr, Val: &pa})
		}
	}
	if faulty {
		// host faults bound to runs of this task
		for i := 0; i < r.Range(1, 3); i++ {
			k := []string{plan.FaultHostErr, plan.FaultHostPanic, plan.FaultHostNil}[r.Intn(3)]
			f := plan.Fault{Kind: k, Task: 0, Run: r.Intn(runs + 1), Call: r.Range(1, 3)}
			if k == plan.FaultHostPanic {
				f.Val = []string{"error", "string", "runtimeError"}[r.Intn(3)]
			}
			p.Faults = append(p.Faults, f)
		}
		note(p, "faulty", "1")
	}
	p.Tasks = [][]plan.Op{ops}
	p.Tape = plan.GenTape(r.Fork(4), 16, 5)
	mb, _ := json.Marshal(meta)
	p.Meta = mb
	return p
}

// genC15Conc: 2-3 clients on one compiled object and its clones; the history
// is checked for linearizability against the model.
func genC15Conc(g *c15g) *plan.Plan {
	r := g.r
	p := &plan.Plan{Shape: "conc"}
	p.Cfg.MaxDecisions = 60000
	var meta C15Meta
	sc := g.script()
	meta.Scripts = []C15Script{sc}
	p.Scripts = []plan.Script{{Src: sc.Source()}}
	nt := r.Range(2, 3)
	p.Slots = 2 + nt
	for _, in := range c15Inputs(g) {
		op := plan.Op{Kind: plan.OpAdd, Script: 0, Name: in.Name}
		if in.Host != "" {
			op.Host = in.Host
		} else {
			v := in.Val
			op.Val = &v
		}
		p.Setup = append(p.Setup, op)
	}
	p.Setup = append(p.Setup, plan.Op{Kind: plan.OpCompile, Script: 0, Dst: 0}, plan.Op{Kind: plan.OpClone, Obj: 0, Dst: 1})
	total := 0
	for t := 0; t < nt; t++ {
		var ops []plan.Op
		own := 2 + t
		hasOwn := false
		n := r.Range(2, 8)
		for j := 0; j < n && total < 24; j++ {
			obj := r.Intn(2)
			if hasOwn && r.Chance(1, 3) {
				obj = own
			}
			switch x := r.Intn(10); {
			case x < 3:
				ops = append(ops, g.setOp(obj))
			case x < 7:
				ops = append(ops, g.readOp(obj))
			case x < 9:
				if r.Chance(1, 2) {
					ops = append(ops, plan.Op{Kind: plan.OpRun, Obj: obj})
				} else {
					ops = append(ops, plan.Op{Kind: plan.OpRunCtx, Obj: obj})
				}
			default:
				ops = append(ops, plan.Op{Kind: plan.OpClone, Obj: obj, Dst: own})
				hasOwn = true
			}
			total++
		}
		p.Tasks = append(p.Tasks, ops)
	}
	p.Tape = plan.GenTape(r.Fork(4), 64, []int{1, 3, 10, 50}[r.Intn(4)])
	mb, _ := json.Marshal(meta)
	p.Meta = mb
	return p
}
